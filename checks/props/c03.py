"""C03 - every valid frame not preceded by a stray 0xD3 is recognised, once, in order."""
import common
import framing
import gen


def expected(segs, tail):
    exp = []
    for k, b in gen.merge_junk(segs):
        exp.append((gen.frame_type(b) if k == "F" else -1, b.hex()))
    if tail:
        exp.append((-1, tail.hex()))
    return exp


def special_frames(rng):
    """Frames whose leader, type, payload or CRC contain 0xD3 bytes."""
    out = []
    for n in (211, 467, 723, 979):                       # length low byte 0xD3
        out.append(gen.make_frame(gen.payload_with_type(rng, gen.rand_type(rng), n)))
    for t in (3376, 3391, 0xD3D, 1085, 0x3D3, 0xD30):    # 0xD3 inside the type / type+station bytes
        for n in (2, 7, 30):
            p = bytearray(gen.payload_with_type(rng, t, n, station=0x3D3))
            out.append(gen.make_frame(bytes(p)))
    for _ in range(40):                                   # 0xD3 in the CRC: search
        for _ in range(4000):
            f = gen.rand_frame(rng, small=True)
            if 0xD3 in f[-3:]:
                out.append(f)
                break
    return out


def run(res, args):
    res.rule = ("segment lists built directly: valid frames (all 14 MSM types, 1005/1006/1230, random types; payloads over "
                "the boundary set; payloads, leaders and CRCs forced to contain 0xD3) interleaved with 0xD3-free junk (1, 2, 5, "
                "long; NMEA, UBX-like), optional truncated last frame (thorough: every truncation position); the oracle is the "
                "segment list itself; non-trivial = at least one frame and two segments")
    res.assumptions = ["time fields of MSM messages are projected away"]
    res.trusted = ["harness: cmd/impl stream; ocaml driver stream", "extraction: ExtrOcamlBasic only"]
    ok = common.step_A(res)
    if not ok:
        return res.finish()
    rng = common.rng_for(res.seed, "c03")
    mult = 1 if res.tier == "quick" else 40
    if not (res.proof_ok and res.corr_ok):
        mult *= 5
    items = []
    for _ in range(1500 * mult):
        segs = gen.segments(rng, small=rng.random() < 0.93)
        tail = b""
        if rng.random() < 0.35:
            f = gen.rand_frame(rng, small=True)
            tail = f[:rng.randint(1, len(f) - 1)]
        items.append((segs, tail, "random"))
    specials = special_frames(rng)
    for f in specials:
        items.append(([("F", f)], b"", "d3-inside"))
        items.append(([("J", gen.rand_junk(rng)), ("F", f), ("F", gen.rand_frame(rng, small=True))], b"", "d3-inside"))
        items.append(([("F", gen.rand_frame(rng, small=True)), ("F", f), ("J", gen.rand_junk(rng))], f[:rng.randint(1, len(f) - 1)], "d3-inside"))
    for n in gen.BOUNDARY_LENS:
        f = gen.make_frame(gen.payload_with_type(rng, gen.rand_type(rng), n))
        items.append(([("F", f), ("F", f)], b"", "back-to-back"))
        positions = range(1, len(f)) if (res.tier == "thorough" or n < 30) else [rng.randint(1, len(f) - 1) for _ in range(6)]
        for k in positions:
            items.append(([("F", gen.rand_frame(rng, small=True))], f[:k], "truncation"))
    # long runs of other data whose length sits on or next to a round buffer size, directly in front of a frame (and
    # between two frames): wherever an implementation cuts long data into pieces, a frame may begin exactly at the cut
    for base in (256, 512, 1024, 1029, 2048, 4096):
        for dlt in (-1, 0, 1):
            j = bytes((rng.getrandbits(8) % 0xD2) for _ in range(base + dlt))
            items.append(([("J", j), ("F", gen.rand_frame(rng, small=True))], b"", "round-size-run"))
            items.append(([("F", gen.rand_frame(rng, small=True)), ("J", j), ("F", gen.rand_frame(rng, small=True)), ("J", gen.rand_junk(rng))], b"", "round-size-run"))
    cases = ["stream %d debug %s" % (framing.T0, gen.hx(gen.flatten(segs) + tail)) for segs, tail, _ in items]
    impl, model = framing.run_both(res, "stream", cases, timeout=3000)
    if impl:
        for (segs, tail, tag), c, line in zip(items, cases, impl):
            res.evaluations += 1
            res.count(tag)
            ms = framing.parse_stream_obs(line)
            if ms is None:
                res.add_violation(dict(case=c, obs=line), "the stream handler did not return normally")
                continue
            got = [(m["type"], m["raw"]) for m in ms]
            exp = expected(segs, tail)
            if got != exp:
                res.add_violation(dict(stream=c.split()[3], segments=[(k, b.hex()) for k, b in segs], tail=tail.hex(),
                                       delivered=got, expected=exp),
                                  "delivered messages are not exactly the segments")
            if len(segs) >= 2 and any(k == "F" for k, _ in segs):
                res.nontrivial.add(c)
            if res.evaluations % 800 == 1:
                res.sample(dict(segments=[(k, len(b)) for k, b in segs], tail_len=len(tail), delivered=[(t, len(r) // 2) for t, r in got]))
    return res.finish()

"""C14 - bit-field extraction returns exactly the addressed bits, signed or unsigned."""
import common


def gen_cases(res, rng, tier):
    cases = []
    n_rand = 30 if tier == "quick" else 600
    pats = [bytes([0xff] * 12), bytes([0x00] * 12), bytes([0xaa] * 12), bytes([0x55] * 12)]
    for k in range(0, 96, 7):  # walking one
        b = bytearray(12)
        b[k // 8] = 0x80 >> (k % 8)
        pats.append(bytes(b))
    for _ in range(n_rand):
        pats.append(bytes(rng.getrandbits(8) for _ in range(12)))
    positions = range(0, 24)
    for buf in pats:
        hx = buf.hex()
        for pos in positions:
            for ln in range(1, 65):
                if pos + ln <= 96:
                    cases.append("u %s %d %d" % (hx, pos, ln))
                    if ln >= 2:
                        cases.append("s %s %d %d" % (hx, pos, ln))
    # minimum value of each width at each alignment
    for ln in range(2, 65):
        for pos in range(0, 9):
            bits = [0] * 96
            bits[pos] = 1
            b = bytearray(12)
            for i, v in enumerate(bits):
                if v:
                    b[i // 8] |= 0x80 >> (i % 8)
            cases.append("s %s %d %d" % (bytes(b).hex(), pos, ln))
    # fields that end in the LAST byte of their buffer (no byte behind the field to fall back on), every width at
    # every offset 0..15, buffer just long enough; random, all-ones and top-bit patterns
    for ln in range(1, 65):
        for pos in range(0, 16):
            n = (pos + ln + 7) // 8
            for pat in range(3):
                buf = bytes(rng.getrandbits(8) for _ in range(n)) if pat == 0 else bytes([0xff] * n) if pat == 1 else bytes([0x80] + [0] * (n - 2) + [1])[:n] if n >= 2 else bytes([0x81])
                cases.append("u %s %d %d" % (buf.hex(), pos, ln))
                if ln >= 2:
                    cases.append("s %s %d %d" % (buf.hex(), pos, ln))
    # long random buffers
    for _ in range(200 if tier == "quick" else 3000):
        n = rng.randint(1, 1100)
        buf = bytes(rng.getrandbits(8) for _ in range(n))
        ln = rng.randint(1, 64)
        if 8 * n - ln < 0:
            continue
        pos = rng.randint(0, 8 * n - ln)
        cases.append("%s %s %d %d" % (rng.choice("us") if ln >= 2 else "u", buf.hex(), pos, ln))
    # out-of-range reads (model must panic exactly when the code does)
    for _ in range(100):
        n = rng.randint(0, 6)
        buf = bytes(rng.getrandbits(8) for _ in range(n))
        ln = rng.randint(0, 64)
        pos = rng.randint(0, 8 * n + 8)
        cases.append("%s %s %d %d" % ("u" if ln < 2 else rng.choice("us"), buf.hex() or "-", pos, ln))
    return cases


def run(res, args):
    res.rule = ("exhaustive offsets 0..23 x widths 1..64 on pattern and random 12-byte buffers, minimum value of every "
                "signed width at 9 alignments, every width at offsets 0..15 in a buffer that ends with the field, random fields in buffers up to 1100 bytes, out-of-range reads; a case is "
                "non-trivial when the field is in range and its value is neither 0 nor all ones")
    res.assumptions = ["uint is 64 bits (amd64)", "the OCaml extraction (ExtrOcamlBasic only) preserves the model's meaning"]
    res.trusted = ["extraction: ExtrOcamlBasic directives only; N/Z/positive/nat as extracted datatypes",
                   "correspondence harness: /verif/harness/cmd/impl (c14), /verif/ocaml/driver.ml"]
    ok = common.step_A(res)
    if ok:
        rng = common.rng_for(res.seed, "c14")
        cases = gen_cases(res, rng, res.tier)
        impl, e1 = common.run_lines(common.IMPL_BIN, "c14", cases)
        model, e2 = common.run_lines(common.MODEL_BIN, "c14", cases)
        if e1 or e2 or impl is None or model is None or len(impl) != len(cases) or len(model) != len(cases):
            res.corr_ok = False
            res.corr_notes.append("runner failure: impl=%s model=%s" % (e1, e2))
        else:
            for c, i, m in zip(cases, impl, model):
                res.evaluations += 1
                mo, spec = [x.strip() for x in m.split("|")]
                kind = c.split()[0]
                res.count(kind + ("-inrange" if spec != "undef" else "-outofrange"))
                if spec != "undef":
                    if i != spec:
                        res.add_violation(dict(case=c, impl=i, spec=spec),
                                          "extraction differs from the addressed bits")
                    v = spec.split()[-1]
                    ln = int(c.split()[3])
                    if v not in ("0", "-1") and v != "f" * ((ln + 3) // 4):
                        res.nontrivial.add(c)
                if i != mo:
                    res.corr_ok = False
                    res.corr_notes.append(dict(case=c, impl=i, model=mo))
                if res.evaluations % 40000 == 1:
                    res.sample(dict(case=c, impl=i, model=mo, spec=spec))
    return res.finish()

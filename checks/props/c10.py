"""C10 - rtcmfilter emits exactly the valid RTCM frames of its input, in order."""
import common
import framing
import gen


def run(res, args):
    res.rule = ("the real HandleMessages of rtcmfilter (go test -overlay) on mixed segment streams, hostile streams and pure "
                "frame sequences, all four display/record switch settings, input chunkings 1..100000 (also the last bytes returned together with io.EOF, silence before the end of input) and writer latencies; the "
                "bytes written are compared with the concatenation of the typed messages of sequential framing (extracted "
                "model, cross-checked with the implementation's stream handler and the valid_frame specification); the daily "
                "record file and the display log are read back; non-trivial = at least one valid frame and one other segment")
    res.assumptions = ["quiescence is observed by polling", "the display log's text is opaque: only the number of entries is compared"]
    res.trusted = ["go test -overlay injection of harness/overlay/rtcmfilter/zz_verif_test.go", "ocaml driver stream/validframe"]
    ok = common.step_A(res)
    if not ok:
        return res.finish()
    okf, outf, fbin = common.build_app_test("rtcmfilter")
    if not okf:
        res.corr_ok = False
        res.corr_notes.append("building the rtcmfilter test binary failed:\n" + outf[-3000:])
        return res.finish()
    rng = common.rng_for(res.seed, "c10")
    mult = 1 if res.tier == "quick" else 30
    ins = []
    for _ in range(120 * mult):
        r = rng.random()
        if r < 0.5:
            ins.append((gen.mixed_stream(rng, small=True)[0], "mixed"))
        elif r < 0.7:
            ins.append((gen.hostile_stream(rng), "hostile"))
        elif r < 0.9:
            segs = gen.segments(rng, small=True)
            ins.append((gen.flatten(segs), "segments"))
        else:
            ins.append((gen.mixed_stream(rng, small=False)[0], "mixed-long"))
    ins.append((b"", "empty"))
    cases = []
    for s, tag in ins:
        opt = rng.choice(["-", "-", "e", "e", "p20", "e,p20"])
        res.count("reader options " + opt)
        cases.append("filter %s %d %d %d %s %s" % (gen.hx(s), rng.getrandbits(1), rng.getrandbits(1), rng.choice([0, 0, 100, 1000]),
                                                   rng.choice(["1", "5", "64", "4096", "2.1.9", "100000"]), opt))
    # an output writer that is stuck in Write for 2.5 s per call (a full pipe, a slow disk): every schedule of the
    # writer goroutines includes the ones where a writer is away from its channel for seconds; nothing may be omitted
    for k in range(1 if res.tier == "quick" else 4):
        fr = [gen.rand_frame(rng, small=True) for _ in range(3)]
        s = fr[0] + b"$GP,1*00\r\n" + fr[1] + fr[2] + b"\n"
        ins.append((s, "writer away for 2.5 s per call"))
        cases.append("filter %s %d %d 2500000 4096 -" % (gen.hx(s), k % 2, (k >> 1) % 2))
    # a silence of 1.5 s in the middle of the input: inside a frame's payload, inside its leader, inside text between
    # frames ("however the input is chunked in time": what is written may not depend on when the bytes arrive)
    for k in range(3 if res.tier == "quick" else 12):
        fr = [gen.rand_frame(rng, small=True) for _ in range(3)]
        text = b"$GNGGA,123519,4807.038,N,01131.000,E,1,08,0.9,545.4,M,46.9,M,,*47\r\n"
        s = fr[0] + text + fr[1] + fr[2]
        at = [len(fr[0]) + len(text) + max(6, len(fr[1]) // 2), len(fr[0]) + len(text) + 2, len(fr[0]) + 20][k % 3]
        ins.append((s, "silence of 1.5 s " + ["inside a frame", "inside a leader", "inside text"][k % 3]))
        cases.append("filter %s %d %d 0 %s m1500@%d" % (gen.hx(s), k % 2, (k >> 1) % 2, rng.choice(["7", "4096", "1"]), at))
    # CRC-valid frames whose type field is all zeros / all ones (rtcmfilter passes on every valid frame, whatever its type)
    for k in range(4 if res.tier == "quick" else 16):
        t = [0, 4095, 0, 1][k % 4]
        odd = gen.make_frame(gen.payload_with_type(rng, t, rng.choice([2, 6, 19, 40])))
        s = gen.rand_frame(rng, small=True) + odd + b"$GP,1*00\r\n" + odd + gen.rand_frame(rng, small=True)
        ins.append((s, "valid frames of type 0 / 4095"))
        cases.append("filter %s %d %d 0 %s -" % (gen.hx(s), k % 2, (k >> 1) % 2, rng.choice(["7", "4096"])))
    # a reader that once returns no bytes and no error (allowed by io.Reader; it is not end of input)
    for k in range(3 if res.tier == "quick" else 12):
        fr = [gen.rand_frame(rng, small=True) for _ in range(3)]
        s = fr[0] + b"$GP,1*00\r\n" + fr[1] + fr[2]
        at = [0, len(fr[0]) + 3, len(fr[0]) + 11 + len(fr[1]) // 2][k % 3]
        ins.append((s, "reader returns (0, nil) once"))
        cases.append("filter %s %d %d 0 %s z%d" % (gen.hx(s), k % 2, (k >> 1) % 2, rng.choice(["7", "4096", "64"]), at))
    scases = ["stream %d debug %s" % (framing.T0, gen.hx(s)) for s, _ in ins]
    simpl, smodel = framing.run_both(res, "stream", scases)
    obs, e = common.run_app_test(fbin, cases, "C10")
    if e:
        res.corr_ok = False
        res.corr_notes.append("app test run failed: %s" % e)
        return res.finish()
    typed = set()
    parsed = []
    for line in (smodel or simpl):
        ms = framing.parse_stream_obs(line) or []
        parsed.append(ms)
        for m in ms:
            if m["type"] >= 0:
                typed.add(m["raw"])
    vf = framing.valid_frames(typed)
    for (s, tag), c, o, ms in zip(ins, cases, obs, parsed):
        res.evaluations += 1
        res.count(tag)
        if o == "hang":
            res.add_violation(dict(case=c[:300]), "rtcmfilter did not return")
            continue
        parts = dict(p.split("=", 1) for p in o.split(" "))
        fin = "" if parts["final"] == "-" else parts["final"]
        exp = "".join(m["raw"] for m in ms if m["type"] >= 0 and vf[m["raw"]][0])
        if fin != exp:
            res.add_violation(dict(case=c[:400], written=fin[:400], expected=exp[:400], written_bytes=len(fin) // 2, expected_bytes=len(exp) // 2),
                              "the output is not exactly the valid frames of the input, in order")
        if parts["record"] != "off":
            rec = "" if parts["record"] == "-" else parts["record"]
            if rec != exp:
                res.add_violation(dict(case=c[:400], record_bytes=len(rec) // 2, expected_bytes=len(exp) // 2),
                                  "the record file does not hold the same bytes as the output")
        if parts["entries"] != "off" and int(parts["entries"]) != len(ms):
            res.add_violation(dict(case=c[:400], entries=int(parts["entries"]), messages=len(ms)),
                              "the readable log does not contain one entry per delivered message")
        if exp and len(ms) >= 2:
            res.nontrivial.add(c)
        if res.evaluations % 30 == 1:
            res.sample(dict(case=c[:140], obs=o[:200]))
    res.traces = res.evaluations
    return res.finish()

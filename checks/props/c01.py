"""C01 - only complete CRC-valid frames are ever presented as typed RTCM messages."""
import common
import framing
import gen


def single_buffers(rng, n):
    """Arbitrary buffers for GetMessage: frames, frames with trailing bytes, shortened frames, buffers whose
    whole-buffer CRC matches although the prefix named by the length field is not a frame, random."""
    out = []
    for _ in range(n):
        r = rng.random()
        f = gen.rand_frame(rng, small=True)
        if r < 0.2:
            b, tag = f, "exact"
        elif r < 0.35:
            b, tag = f + gen.rand_bytes(rng, rng.randint(1, 8)), "trailing"
        elif r < 0.45:
            b, tag = f[:rng.randint(0, len(f) - 1)], "short"
        elif r < 0.6:
            # leader says len, buffer is longer, CRC of the WHOLE buffer appended
            ln = rng.choice([1, 2, 3, 5, 19, 20])
            body = bytes([0xD3, 0, ln]) + gen.payload_with_type(rng, gen.rand_type(rng), ln) + gen.rand_bytes(rng, 3 + rng.randint(1, 12))
            c = gen.crc24q(body)
            b, tag = body + bytes([c >> 16, (c >> 8) & 255, c & 255]), "wholecrc"
        elif r < 0.7:
            b, tag = gen.corrupt(rng, f), "corrupt"
        elif r < 0.8:
            g = bytearray(f)
            g[1] |= rng.choice([4, 8, 0x40, 0x80])
            b, tag = bytes(g), "reserved"
        elif r < 0.85:
            b, tag = b"\xd3\x00\x00" + gen.rand_bytes(rng, rng.randint(0, 8)), "zerolen"
        elif r < 0.9:
            b, tag = gen.rand_bytes(rng, rng.randint(0, 30)), "random"
        else:
            # two-of-three CRC bytes right
            g = bytearray(f)
            g[-rng.randint(1, 3)] ^= 1 << rng.randint(0, 7)
            b, tag = bytes(g), "crc1byte"
        out.append((b, tag))
    return out


def run(res, args):
    res.rule = ("mixed segment streams (valid frames of all length classes, junk, stray 0xD3, bad reserved bits, zero "
                "length, corrupted, truncated, hidden frames, length-field edits), 0xD3-dense hostile streams, and "
                "single buffers for GetMessage (exact, trailing bytes, shortened, whole-buffer CRC, corrupted); a case "
                "is non-trivial when the implementation delivered at least one typed message or rejected a near-frame")
    res.assumptions = ["go-crc24q's Hash is modelled (table-driven, uint32) and compared with the implementation on every frame",
                       "time fields are part of the correspondence but not of this property's oracle"]
    res.trusted = ["extraction: ExtrOcamlBasic only", "harness: cmd/impl stream+getmsg, ocaml/driver.ml stream+getmsg+validframe"]
    ok = common.step_A(res)
    if not ok:
        return res.finish()
    rng = common.rng_for(res.seed, "c01")
    mult = 1 if res.tier == "quick" else 12
    if not (res.proof_ok and res.corr_ok):
        mult *= 5
    streams = []
    for _ in range(1000 * mult):
        s, tags = gen.mixed_stream(rng, small=True)
        streams.append((s, "mixed:" + "+".join(sorted(set(tags)))))
    for _ in range(60 * mult):
        s, tags = gen.mixed_stream(rng, small=False)
        streams.append((s, "mixed-long"))
    for _ in range(600 * mult):
        streams.append((gen.hostile_stream(rng), "hostile"))
    for n in gen.BOUNDARY_LENS:
        streams.append((gen.make_frame(gen.payload_with_type(rng, gen.rand_type(rng), n)), "boundary"))
    # near-frames whose CRC matches under a WRONG reading of the leader: reserved bits set, and the checksum computed
    # for the payload length a 16-bit reading (or a reading that ignores the reserved bits) would give
    for hi, lo in [(0x04, 0x00), (0x04, 0x05), (0x08, 0x01), (0x05, 0x13), (0xfc, 0x03), (0x80, 0x02), (0x07, 0xff)] * (1 if mult == 1 else 4):
        for L in sorted(set([((hi << 8) | lo), (((hi & 3) << 8) | lo)])):
            if 0 < L <= 2100:
                body = gen.payload_with_type(rng, gen.rand_type(rng), L)
                head = bytes([0xD3, hi, lo]) + body
                near = head + gen.crc24q(head).to_bytes(3, "big")
                streams.append((near + gen.rand_frame(rng, small=True), "wrong-leader-reading"))
                streams.append((gen.rand_junk(rng) + near, "wrong-leader-reading"))
    # a frame repeated verbatim (as stations repeat 1005/1006/1230) whose second copy is damaged in the payload only,
    # the CRC bytes being those of the good copy
    for _ in range(40 * mult):
        f = gen.make_frame(gen.payload_with_type(rng, rng.choice([1005, 1006, 1230, 1033, gen.rand_type(rng)]), rng.choice([19, 21, 8, 40, 100])))
        g = bytearray(f)
        # ... or in the CRC bytes only (leader and payload identical to those of the good copy)
        i = rng.randint(5, len(f) - 4) if rng.random() < 0.6 else rng.randint(len(f) - 3, len(f) - 1)
        g[i] ^= 1 << rng.randint(0, 7)
        streams.append((f + (gen.rand_junk(rng) if rng.random() < 0.3 else b"") + bytes(g) + f, "damaged-repeat"))
    # the longest frames (payload 1016..1023 bytes): whole, in a row, between other data
    for n in (1016, 1017, 1018, 1019, 1020, 1021, 1022, 1023):
        f = gen.make_frame(gen.payload_with_type(rng, rng.choice([1005, 1077, 1230, gen.rand_type(rng)]), n))
        streams.append((gen.rand_junk(rng) + f + gen.rand_frame(rng, small=True), "longest-frames"))
        streams.append((f + f, "longest-frames"))
    cases = ["stream %d debug %s" % (framing.T0, gen.hx(s)) for s, _ in streams]
    impl, model = framing.run_both(res, "stream", cases)
    typed_raws = set()
    parsed = []
    if impl:
        for (s, tag), line in zip(streams, impl):
            ms = framing.parse_stream_obs(line)
            parsed.append(ms)
            if ms is None:
                # a panic or hang is C07's business; here it only means there is nothing to judge
                res.count("stream:no-observation")
                continue
            for m in ms:
                if m["type"] >= 0:
                    typed_raws.add(m["raw"])
    singles = single_buffers(rng, 3000 * mult)
    scases = ["getmsg %d debug %s" % (framing.T0, gen.hx(b)) for b, _ in singles]
    simpl, smodel = framing.run_both(res, "getmsg", scases)
    sparsed = []
    if simpl:
        for (b, tag), line in zip(singles, simpl):
            o = framing.parse_getmsg_obs(line)
            sparsed.append(o)
            if o["kind"] == "msg" and o["type"] >= 0 and o["ret"] == "-":
                typed_raws.add(o["raw"])
    vf = framing.valid_frames(typed_raws)
    for (s, tag), ms in zip(streams, parsed):
        res.evaluations += 1
        res.count("stream:" + tag.split(":")[0])
        if ms is None:
            continue
        nt = 0
        for m in ms:
            if m["type"] >= 0:
                nt += 1
                ok_, ty = vf[m["raw"]]
                if not ok_ or ty != m["type"]:
                    res.add_violation(dict(stream=gen.hx(s), message=m),
                                      "typed message whose raw bytes are not one valid frame of that type")
        if nt:
            res.nontrivial.add(s)
        if res.evaluations % 700 == 1:
            res.sample(dict(stream=gen.hx(s)[:120], tag=tag, delivered=[(m["type"], len(m["raw"]) // 2) for m in ms]))
    for (b, tag), o in zip(singles, sparsed):
        res.evaluations += 1
        res.count("single:" + tag)
        if o["kind"] != "msg":
            continue
        if o["type"] >= 0 and o["ret"] == "-":
            ok_, ty = vf[o["raw"]]
            if not ok_ or ty != o["type"] or not gen.hx(b).startswith(o["raw"]):
                res.add_violation(dict(buffer=gen.hx(b), tag=tag, returned=o),
                                  "GetMessage returned a typed message without an error for bytes that are not such a frame")
            res.nontrivial.add(b)
        elif tag in ("wholecrc", "crc1byte", "corrupt", "short"):
            res.nontrivial.add(b)
    return res.finish()

"""C16 - rtcmlogger passes its input through unchanged and records an identical copy."""
import glob
import json
import os
import shutil
import subprocess
import time
from concurrent.futures import ThreadPoolExecutor

import common
import gen


def run_logger(binary, workdir, data, chunks, pause_ms, slow_disk=None, log_events=False, tz=None):
    """Run the rtcmlogger binary: feed stdin in chunks, capture stdout, read the day's record file after exit.
    slow_disk = (record file name, stall seconds): the day's record file is a named pipe whose reader (this
    harness, playing a slow disk) stalls before it takes anything, so the recorder goroutine blocks in Write while
    the copy loop runs ahead."""
    import threading
    shutil.rmtree(workdir, ignore_errors=True)
    os.makedirs(workdir)
    recbuf = bytearray()
    disk = None
    if slow_disk:
        fifo = os.path.join(workdir, slow_disk[0])
        os.mkfifo(fifo)

        def disk_reader():
            with open(fifo, "rb") as f:
                time.sleep(slow_disk[1])
                while True:
                    b = f.read(65536)
                    if not b:
                        break
                    recbuf.extend(b)
        disk = threading.Thread(target=disk_reader, daemon=True)
        disk.start()
    cfg = os.path.join(workdir, "cfg.json")
    with open(cfg, "w") as f:
        conf = {"log_events": log_events, "message_log_directory": workdir, "event_log_directory": workdir}
        if tz:
            # the remaining keys of the configuration file as well, and the machine in another time zone (the day's
            # record is the one dailylogger names after the local date)
            os.makedirs(os.path.join(workdir, "old"), exist_ok=True)
            conf["directory_for_old_message_logs"] = os.path.join(workdir, "old")
        json.dump(conf, f)
    p = subprocess.Popen([binary, "-c", cfg], stdin=subprocess.PIPE, stdout=subprocess.PIPE, stderr=subprocess.PIPE, cwd=workdir,
                         env=(dict(os.environ, TZ=tz) if tz else None))
    out = bytearray()

    def reader():
        while True:
            b = p.stdout.read(65536)
            if not b:
                break
            out.extend(b)
    t = threading.Thread(target=reader)
    t.start()
    pos, i = 0, 0
    try:
        while pos < len(data):
            n = chunks[i % len(chunks)]
            i += 1
            p.stdin.write(data[pos:pos + n])
            p.stdin.flush()
            pos += n
            if pause_ms:
                time.sleep(pause_ms / 1000.0)
        p.stdin.close()
    except BrokenPipeError:
        pass
    try:
        rc = p.wait(timeout=60)
    except subprocess.TimeoutExpired:
        p.kill()
        rc = -9
    t.join(timeout=10)
    rec = b""
    if slow_disk:
        disk.join(timeout=30)
        rec = bytes(recbuf)
    else:
        for fn in sorted(glob.glob(os.path.join(workdir, "rtcmlogger.*.rtcm"))):
            rec += open(fn, "rb").read()
    shutil.rmtree(workdir, ignore_errors=True)
    return rc, bytes(out), rec


def run_logger_live(binary, workdir, bursts, wait_s=4.0, gap_s=0.0):
    """A live stream: stdin stays open and idle after each burst; what has been fed must come out of stdout while
    the input is silent (a pass-through that holds data back until more input or end of input arrives withholds
    it for as long as the source is quiet).  Returns (rc, [(fed so far, delivered when the wait ended)], out, rec, data)."""
    import threading
    shutil.rmtree(workdir, ignore_errors=True)
    os.makedirs(workdir)
    cfg = os.path.join(workdir, "cfg.json")
    with open(cfg, "w") as f:
        json.dump({"log_events": False, "message_log_directory": workdir, "event_log_directory": workdir}, f)
    p = subprocess.Popen([binary, "-c", cfg], stdin=subprocess.PIPE, stdout=subprocess.PIPE, stderr=subprocess.PIPE, cwd=workdir)
    out = bytearray()
    lock = threading.Lock()

    def reader():
        while True:
            b = p.stdout.read1(65536)
            if not b:
                break
            with lock:
                out.extend(b)
    t = threading.Thread(target=reader)
    t.start()
    fed, seen = 0, []
    data = b"".join(bursts)
    try:
        for bi, b in enumerate(bursts):
            p.stdin.write(b)
            p.stdin.flush()
            fed += len(b)
            deadline = time.time() + wait_s
            while time.time() < deadline:
                with lock:
                    n = len(out)
                if n >= fed:
                    break
                time.sleep(0.02)
            with lock:
                seen.append((fed, len(out)))
            if gap_s and bi < len(bursts) - 1:
                time.sleep(gap_s)   # the source is silent for a while; the input stays open
        p.stdin.close()
    except BrokenPipeError:
        pass
    try:
        rc = p.wait(timeout=60)
    except subprocess.TimeoutExpired:
        p.kill()
        rc = -9
    t.join(timeout=10)
    rec = b""
    for fn in sorted(glob.glob(os.path.join(workdir, "rtcmlogger.*.rtcm"))):
        rec += open(fn, "rb").read()
    shutil.rmtree(workdir, ignore_errors=True)
    return rc, seen, bytes(out), rec, data


def run(res, args):
    res.rule = ("the built rtcmlogger binary: stdin fed through a pipe (empty, 1 B, 8095, 8096, 8097, 20 000, 100 000 random bytes, 6 MB and more, "
                "RTCM streams) with chunk sizes 1..65536 and pauses 0/1/5 ms, stdout captured, the day's record file read after the "
                "process has exited; every case repeated to sample the exit race; live streams (bursts, also of exact multiples of the 8096-byte block, with the input open and idle in between: what was fed must have come out within 4 s of silence; one stream with 6 s of silence between its bursts); plus the repository's start() in-process (go test "
                "-overlay; newLogWriter replaced) built with -race, with inputs up to 1.5 MB, a record writer that stalls, and input that keeps arriving for more than two seconds (a slow disk: the "
                "recorder blocks in Write while the copy loop runs ahead), also with packets shorter than the block arriving a few ms apart and the input ending while the backlog is queued; "
                "non-trivial = at least 2 blocks of input")
    res.assumptions = ["runs are kept away from local midnight (the daily writer's rotation is out of scope)",
                       "the interleaving of the copy loop and the recorder at end of input is sampled by repetition, not enumerated"]
    res.trusted = ["the binary is built from /repo's working tree with go build"]
    ok = common.step_A(res)
    if not ok:
        return res.finish()
    okb, outb, binary = common.build_app("rtcmlogger")
    if not okb:
        res.corr_ok = False
        res.corr_notes.append("go build ./apps/rtcmlogger failed:\n" + outb[-3000:])
        return res.finish()
    lt = time.localtime()
    if (lt.tm_hour == 23 and lt.tm_min >= 58) or (lt.tm_hour == 0 and lt.tm_min < 1):
        time.sleep(150)
    rng = common.rng_for(res.seed, "c16")
    reps = 6 if res.tier == "quick" else 80
    sizes = [0, 1, 100, 8095, 8096, 8097, 20000, 100000]
    jobs = []
    for sz in sizes:
        data = gen.rand_bytes(rng, sz)
        for r in range(reps if sz >= 8096 else max(2, reps // 3)):
            chunks = rng.choice([[65536], [8096], [1000], [4096, 1], [sz or 1]])
            if sz <= 100:
                chunks = rng.choice([[1], [7], [100]])
            jobs.append((data, chunks, rng.choice([0, 0, 1, 5]) if sz <= 20000 else 0, "random%d" % sz))
    # a long run: several megabytes (whatever the program does only after a while - a garbage collection, a buffer
    # that fills, a counter that wraps - happens while data flows)
    for sz in ([6000000] if res.tier == "quick" else [6000000, 12000000, 25000000]):
        jobs.append((gen.rand_bytes(rng, 1000) * (sz // 1000), [65536], 0, "long-run-%dMB" % (sz // 1000000)))
    for _ in range(reps):
        s = b"".join(gen.rand_frame(rng, small=False) for _ in range(rng.randint(5, 40)))
        jobs.append((s, [rng.choice([1, 64, 8096, 65536])] if len(s) < 3000 else [8096], 0, "rtcm"))
    wd = os.path.join(common.WORK, "C16")
    os.makedirs(wd, exist_ok=True)
    def one(ij):
        i, (data, chunks, pause, tag) = ij
        # every third run with the event log switched on (the event log is a third output; it must not touch the other two)
        return run_logger(binary, os.path.join(wd, "run%d" % i), data, chunks, pause, log_events=(i % 3 == 1),
                          tz=([None, "America/Los_Angeles", None, "Pacific/Auckland", None, "UTC"][i % 6]))
    with ThreadPoolExecutor(max_workers=8) as ex:
        results = list(ex.map(one, enumerate(jobs)))
    for (data, chunks, pause, tag), (rc, out, rec) in zip(jobs, results):
        res.evaluations += 1
        res.count(tag)
        case = dict(input_bytes=len(data), chunks=chunks, pause_ms=pause, kind=tag, input_sha=__import__("hashlib").sha256(data).hexdigest()[:16],
                    input_hex=(data.hex() if len(data) <= 200 else data[:100].hex() + "..."))
        if rc != 0:
            res.add_violation(dict(case, exit=rc), "rtcmlogger did not exit normally")
            continue
        if out != data:
            res.add_violation(dict(case, stdout_bytes=len(out)), "standard output differs from standard input")
        if rec != data:
            res.add_violation(dict(case, record_bytes=len(rec), first_difference=next((k for k in range(min(len(rec), len(data))) if rec[k] != data[k]), min(len(rec), len(data)))),
                              "the record file is not a complete copy of the input after the program has ended")
        if len(data) > 8096:
            res.nontrivial.add((tag, tuple(chunks), pause, res.evaluations))
        if res.evaluations % 12 == 1:
            res.sample(dict(case, stdout_bytes=len(out), record_bytes=len(rec)))
    # live streams: bursts with the input idle (and open) in between
    live = []
    for k in range(6 if res.tier == "quick" else 40):
        sizes_l = [rng.choice([1, 100, 4048, 8095, 8096, 8097, 16192, 24288, 20000, 64768, 65536]) for _ in range(rng.randint(1, 3))]
        if k < 3:
            sizes_l = [[8096], [16192, 100], [300, 8096 * 3]][k]
        live.append([gen.rand_bytes(rng, n) for n in sizes_l])
    with ThreadPoolExecutor(max_workers=6) as ex:
        live_results = list(ex.map(lambda ib: run_logger_live(binary, os.path.join(wd, "live%d" % ib[0]), ib[1], gap_s=(6.0 if ib[0] == 1 else 0.0)), enumerate(live)))
    for bursts, (rc, seen, out, rec, data) in zip(live, live_results):
        res.evaluations += 1
        res.count("live stream: bursts with idle, open input in between")
        case = dict(bursts=[len(b) for b in bursts], kind="live", input_sha=__import__("hashlib").sha256(data).hexdigest()[:16])
        if rc != 0:
            res.add_violation(dict(case, exit=rc), "rtcmlogger did not exit normally")
            continue
        short = [(f, d) for f, d in seen if d < f]
        if short:
            res.add_violation(dict(case, fed_and_delivered_after_4s_of_silence=short),
                              "input already received was not passed to standard output while the input was idle (pass-through withheld)")
        if out != data:
            res.add_violation(dict(case, stdout_bytes=len(out)), "standard output differs from standard input")
        if rec != data:
            res.add_violation(dict(case, record_bytes=len(rec)), "the record file is not a complete copy of the input after the program has ended")
        if len(data) > 8096:
            res.nontrivial.add(("live", tuple(len(b) for b in bursts)))
    # the same program in-process with a record writer that stalls (a slow disk): the recorder goroutine blocks in
    # Write while the copy loop runs ahead; os.Stdin/os.Stdout are pipes; start() is the repository's
    okt, outt, tbin = common.build_app_test("rtcmlogger", rewrite=("main.go", "func newLogWriter(", "func newLogWriterRepo("), race=True)
    if not okt:
        res.corr_ok = False
        res.corr_notes.append("building the rtcmlogger overlay test failed (slow-disk schedules not run): " + (outt or "")[-2500:])
        res.traces = res.evaluations
        return res.finish()
    cases = []
    for k in range(10 if res.tier == "quick" else 80):
        size = rng.choice([0, 1, 8096, 20000, 100000, 400000, 700000, 1200000])
        chunk = rng.choice([1000, 8096, 65536, 200000])
        stall_call = rng.choice([0, 1, 1, 2, 5])
        stall_ms = rng.choice([50, 300, 600]) if stall_call else 0
        each_us = rng.choice([0, 0, 50, 500]) if size <= 400000 else 0
        cases.append("logger %d %d %d %d %d %d" % (size, chunk, stall_call, stall_ms, each_us, rng.getrandbits(31)))
    cases.append("logger 1200000 65536 1 600 0 7")
    cases.append("logger 700000 8096 2 400 0 8")
    # input that keeps arriving for more than two seconds (anything the program does on a timer happens while data flows)
    cases.append("logger 1500000 4096 0 0 0 9 6000")
    cases.append("logger 600000 8096 0 0 0 10 30000")
    # short reads (packets smaller than the block, a few ms apart) while the recorder is stuck in its first or
    # second Write, end of input arriving while the backlog is still queued
    cases += ["logger 9000 3000 1 300 0 11 2000", "logger 30000 1500 1 400 0 12 1000", "logger 20000 1000 2 300 0 13 500",
              "logger 12000 4000 1 200 100 14 3000"]
    # ... for a spread of packet sizes and packet counts (what is queued behind the stuck Write ranges from less
    # than one block to several blocks)
    for ck in (1000, 1500, 2000, 3000, 4000, 5000):
        for npk in ((3, 4, 6, 7, 10) if res.tier != "quick" else {1000: (10,), 1500: (7,), 2000: (6,), 3000: (4,), 4000: (4, 3), 5000: (3,)}[ck]):
            cases.append("logger %d %d 1 250 0 %d 1500" % (ck * npk, ck, 100 + ck // 100 + npk))
    for k in range(0 if res.tier == "quick" else 40):
        cases.append("logger %d %d %d %d %d %d %d" % (rng.choice([6000, 9000, 17000, 30000, 50000]), rng.choice([500, 1000, 1500, 3000, 4000, 8000]),
                                                      rng.choice([1, 1, 2, 3]), rng.choice([100, 300, 500]), rng.choice([0, 0, 100]), rng.getrandbits(31),
                                                      rng.choice([200, 1000, 3000])))
    obs, e = common.run_app_test(tbin, cases, "C16", shards=4)
    if e or len(obs) != len(cases):
        if e and ("DATA RACE" in e or "race detected" in e):
            res.add_violation(dict(error=e[-2500:], cases=cases[-4:]), "data race inside rtcmlogger's start() (race-enabled in-process run)")
        else:
            res.corr_ok = False
            res.corr_notes.append("rtcmlogger overlay run failed: %s" % e)
    else:
        for c, o in zip(cases, obs):
            res.evaluations += 1
            res.count("in-process, stalling record writer")
            if o == "hang":
                res.add_violation(dict(case=c), "start() did not return within 60 s of the end of input (recording delays the program indefinitely)")
                continue
            parts = dict(x.split("=", 1) for x in o.split(" "))
            if parts["out"] != "same":
                res.add_violation(dict(case=c, stdout_len_and_first_difference=parts["out"]), "standard output differs from standard input (stalling record writer)")
            if parts["rec"] != "same":
                res.add_violation(dict(case=c, record_len_and_first_difference=parts["rec"]),
                                  "the record is not a complete copy of the input when start() returns (stalling record writer)")
            if int(c.split()[1]) > 8096:
                res.nontrivial.add(c)
    res.traces = res.evaluations
    return res.finish()

"""C11 - when an application's message handling returns, all output has been written."""
import common
import framing
import gen


def inputs(rng, n):
    out = []
    for _ in range(n):
        r = rng.random()
        if r < 0.5:
            segs = gen.segments(rng, nseg=rng.randint(1, 4), small=True)
            s = gen.flatten(segs)
        elif r < 0.8:
            s, _ = gen.mixed_stream(rng, small=True)
        else:
            s = gen.rand_frame(rng, small=True)
        if not s:
            s = gen.rand_frame(rng, small=True)
        out.append(s)
    return out


def run(res, args):
    res.rule = ("the real HandleMessages entry points of rtcmfilter and displayrtcm3 (reached with go test -overlay) on segment "
                "streams with at least one message, writer latencies 0 / 0.2 / 2 / 20 ms, 150-500 ms and 1.2 s per call, several input chunkings, last bytes returned together with EOF, silences of 30-250 ms before the end of input; "
                "observation = bytes held by the writer at the instant the function returns and after quiescence; "
                "non-trivial = latency > 0 and at least one message")
    res.assumptions = ["the writer latencies sample the schedules; the model's bad schedule (main returns while the writer still holds the "
                       "last message) is forced by the blocking writer",
                       "quiescence is observed by polling (no change for 60 ms)"]
    res.trusted = ["go test -overlay injection of harness/overlay/*/zz_verif_test.go", "ocaml driver stream (expected output)"]
    ok = common.step_A(res)
    if not ok:
        return res.finish()
    okf, outf, fbin = common.build_app_test("rtcmfilter")
    okd, outd, dbin = common.build_app_test("displayrtcm3")
    if not (okf and okd):
        res.corr_ok = False
        res.corr_notes.append("building the app test binaries failed:\n" + (outf + outd)[-3000:])
        return res.finish()
    rng = common.rng_for(res.seed, "c11")
    mult = 1 if res.tier == "quick" else 6
    ins = inputs(rng, 60 * mult)
    lats = [0, 200, 2000, 20000]
    fcases, dcases, meta = [], [], []
    for s in ins:
        lat = rng.choice(lats)
        ch = rng.choice(["1", "7", "4096", "3.1.50", "64"])
        opt = rng.choice(["-", "-", "e", "p30", "p120", "e,p30"])
        res.count("reader options " + opt)
        fcases.append("filter %s %d %d %d %s %s" % (gen.hx(s), rng.getrandbits(1), rng.getrandbits(1), lat, ch, opt))
        dcases.append("display %s %d %s %s" % (gen.hx(s), lat, ch, opt))
        meta.append((s, lat))
    # a writer that blocks for seconds per call (the wait must not be bounded by a timer)
    slow = [b"".join(gen.rand_frame(rng, small=True) for _ in range(3)) for _ in range(2 if res.tier == "quick" else 6)]
    for s in slow:
        fcases.append("filter %s 0 0 %d 4096" % (gen.hx(s), 1200000))
        dcases.append("display %s %d 4096" % (gen.hx(s), 1200000))
        meta.append((s, 1200000))
    # a slow writer and a silence between the last bytes and the end of input (output still in flight in some
    # background flush when the end of input arrives)
    quiet = [b"".join(gen.rand_frame(rng, small=True) for _ in range(rng.randint(1, 4))) for _ in range(4 if res.tier == "quick" else 16)]
    for k, s in enumerate(quiet):
        lat = [300000, 150000, 500000, 300000][k % 4]
        opt = ["p60", "p40", "p150", "e,p250"][k % 4]
        fcases.append("filter %s 0 0 %d 4096 %s" % (gen.hx(s), lat, opt))
        dcases.append("display %s %d 4096 %s" % (gen.hx(s), lat, opt))
        meta.append((s, lat))
    # several writer goroutines of different speed (logs enabled, the output writer much slower than the log
    # writers): the function must wait for all of them, not for the first to finish
    several = [b"".join(gen.rand_frame(rng, small=True) for _ in range(rng.randint(1, 3))) for _ in range(3 if res.tier == "quick" else 12)]
    for k, s in enumerate(several):
        fcases.append("filter %s %d %d %d 4096" % (gen.hx(s), [1, 0, 1][k % 3], [1, 1, 0][k % 3], 400000))
        dcases.append("display %s %d 4096" % (gen.hx(s), 1000))
        meta.append((s, 400000))
        res.count("rtcmfilter with log writers and a slow output writer")
    # long displays: runs of 5-16 large MSM messages (several KB of text each) behind a writer that takes 2-20 ms per
    # call, so that tens of KB of display are pending when the input ends
    big = []
    import msmgen
    specs = [msmgen.abstract(rng, k7=(i % 3 != 0), shape=(rng.randint(6, 16), rng.randint(2, 4)), multi=False)[0] for i in range(60)]
    slines, _ = common.run_lines(common.MODEL_BIN, "msmspec", ["msmspec " + t for t in specs])
    pool = []
    for line in slines or []:
        parts = dict(p.split("=", 1) for p in line.split(" ", 3))
        if parts.get("wf") == "1":
            pool.append(bytes.fromhex(parts["frame"]))
    # every prefix length 5..16 of one sequence of messages: wherever a writer-side batching scheme draws its batch
    # boundaries in that sequence, some prefix ends exactly on each of them
    for q in range(2 if res.tier == "quick" else 10):
        seq_msgs = [(rng.choice(pool) if pool and rng.random() < 0.9 else gen.rand_frame(rng, small=False)) for _ in range(16)]
        lat = [20000, 8000][q % 2]
        for n in range(5, 17):
            s = b"".join(seq_msgs[:n])
            big.append(s)
            fcases.append("filter %s 0 0 %d 65536" % (gen.hx(s), lat))
            dcases.append("display %s %d 65536" % (gen.hx(s), lat))
            meta.append((s, lat))
            res.count("displayrtcm3/rtcmfilter: 5-16 large MSM messages (2-6 KB of text each) behind an 8-20 ms writer")
    # inputs with messages but without a single valid RTCM frame (text only, random bytes, a truncated frame, a frame
    # with a damaged CRC): "every message derived from the input" includes the non-RTCM ones that displayrtcm3 shows
    norm = [gen.NMEA[0] + gen.NMEA[1], gen.hostile_stream(rng, 200).replace(b"\xd3", b"\x33"), gen.rand_frame(rng, small=True)[:-2],
            gen.corrupt(rng, gen.rand_frame(rng, small=True), "crc"), b"$"]
    if res.tier != "quick":
        norm += [gen.rand_junk(rng) for _ in range(10)]
    for k, s in enumerate(norm):
        lat = [20000, 150000, 20000, 2000, 300000][k % 5]
        fcases.append("filter %s 1 1 %d 4096" % (gen.hx(s), lat))
        dcases.append("display %s %d 4096" % (gen.hx(s), lat))
        meta.append((s, lat))
        res.count("input without any valid RTCM frame")
    ins = ins + slow + quiet + several + big + norm
    # expected output from sequential framing (model), cross-checked with the implementation's stream handler
    scases = ["stream %d debug %s" % (framing.T0, gen.hx(s)) for s in ins]
    simpl, smodel = framing.run_both(res, "stream", scases)
    expected = []
    for line in (smodel or simpl or []):
        ms = framing.parse_stream_obs(line) or []
        expected.append(("".join(m["raw"] for m in ms if m["type"] >= 0), len(ms)))
    fobs, e1 = common.run_app_test(fbin, fcases, "C11f")
    dobs, e2 = common.run_app_test(dbin, dcases, "C11d")
    if e1 or e2:
        res.corr_ok = False
        res.corr_notes.append("app test run failed: %s %s" % (e1, e2))
        return res.finish()
    for (s, lat), c, o, (exp, nmsg) in zip(meta, fcases, fobs, expected):
        res.evaluations += 1
        res.count("rtcmfilter:lat=%d" % lat)
        if o == "hang":
            res.add_violation(dict(app="rtcmfilter", case=c, obs=o), "HandleMessages did not return")
            continue
        parts = dict(p.split("=", 1) for p in o.split(" "))
        at = "" if parts["atreturn"] == "-" else parts["atreturn"]
        fin = "" if parts["final"] == "-" else parts["final"]
        if at != exp:
            res.add_violation(dict(app="rtcmfilter", case=c, written_at_return=len(at) // 2, expected_bytes=len(exp) // 2,
                                   written_after_quiescence=len(fin) // 2, writer_latency_us=lat),
                              "output incomplete when HandleMessages returned")
        if lat > 0 and exp:
            res.nontrivial.add(c)
        if res.evaluations % 25 == 1:
            res.sample(dict(app="rtcmfilter", case=c[:120], obs=o[:160]))
    for (s, lat), c, o, (exp, nmsg) in zip(meta, dcases, dobs, expected):
        res.evaluations += 1
        res.count("displayrtcm3:lat=%d" % lat)
        if o == "hang":
            res.add_violation(dict(app="displayrtcm3", case=c, obs=o), "HandleMessages did not return")
            continue
        parts = dict(p.split("=", 1) for p in o.split(" "))
        ab, ae = map(int, parts["atreturn"].split("/"))
        fb, fe = map(int, parts["final"].split("/"))
        if ae != nmsg or ab != fb:
            res.add_violation(dict(app="displayrtcm3", case=c, entries_at_return=ae, bytes_at_return=ab, messages=nmsg,
                                   bytes_after_quiescence=fb, entries_after_quiescence=fe, writer_latency_us=lat),
                              "display incomplete when HandleMessages returned")
        if lat > 0 and nmsg:
            res.nontrivial.add(c)
        if res.evaluations % 25 == 1:
            res.sample(dict(app="displayrtcm3", case=c[:120], obs=o))
    res.traces = res.evaluations
    return res.finish()

"""Shared machinery of the go-ntrip property checks.

Verdict logic (DESIGN.md section 1):
  A  regenerate facts from /repo, build the Coq development, audit the property's theorems
  B  correspondence: run the extracted model and the implementation on the same cases
  C  oracle: evaluate the property's specification on the implementation's observations
"""
import fcntl
import hashlib
import json
import os
import random
import re
import shutil
import subprocess
import sys
import time

VERIF = os.path.dirname(os.path.dirname(os.path.abspath(__file__)))
REPO = "/repo"
COQ = os.path.join(VERIF, "coq")
OCAML = os.path.join(VERIF, "ocaml")
HARNESS = os.path.join(VERIF, "harness")
WORK = os.path.join(VERIF, "work")
EVIDENCE = os.path.join(VERIF, "evidence")
REPLAYS = os.path.join(VERIF, "replays")
KNOWN = os.path.join(VERIF, "known_findings.txt")

GOENV = dict(os.environ, GOFLAGS="-mod=mod", GOPROXY="off", GOSUMDB="off",
             GOTOOLCHAIN="local", CGO_ENABLED=os.environ.get("CGO_ENABLED", "1"))

# VERIF_COVER=<dir> (used by checks/coverage.py only, never by the registered commands): build the harness and the
# applications with Go's coverage instrumentation for /repo's packages and collect counters in <dir>
COVER_DIR = os.environ.get("VERIF_COVER")
COVFLAGS = ["-cover", "-covermode=atomic", "-coverpkg=github.com/goblimey/go-ntrip/...,./..."] if COVER_DIR else []
if COVER_DIR:
    os.makedirs(COVER_DIR, exist_ok=True)
    GOENV["GOCOVERDIR"] = COVER_DIR
    os.environ["GOCOVERDIR"] = COVER_DIR   # binaries started without an explicit environment (run_lines, Popen)

MODEL_BIN = os.path.join(OCAML, "_build", "default", "driver.exe")
IMPL_BIN = os.path.join(HARNESS, "bin", "impl")


def log(msg):
    print(msg, flush=True)


def sh(cmd, cwd=None, env=None, timeout=1200, input_bytes=None):
    """Run a command, return (rc, stdout+stderr text)."""
    try:
        p = subprocess.run(cmd, cwd=cwd, env=env, input=input_bytes, stdout=subprocess.PIPE,
                           stderr=subprocess.STDOUT, timeout=timeout, shell=isinstance(cmd, str))
        return p.returncode, p.stdout.decode("utf-8", "replace")
    except subprocess.TimeoutExpired as e:
        out = (e.stdout or b"").decode("utf-8", "replace")
        return 124, out + "\n[timeout after %ss]" % timeout


class Lock:
    def __init__(self, name):
        os.makedirs(WORK, exist_ok=True)
        self.path = os.path.join(WORK, name + ".lock")

    def __enter__(self):
        self.f = open(self.path, "w")
        fcntl.flock(self.f, fcntl.LOCK_EX)
        return self

    def __exit__(self, *a):
        fcntl.flock(self.f, fcntl.LOCK_UN)
        self.f.close()


def write_if_changed(path, content):
    old = None
    if os.path.exists(path):
        with open(path) as f:
            old = f.read()
    if old != content:
        os.makedirs(os.path.dirname(path), exist_ok=True)
        with open(path, "w") as f:
            f.write(content)
        return True
    return False


# --------------------------------------------------------------------------------------
# Step A: facts, Coq build, audit
# --------------------------------------------------------------------------------------

GENFACTS_BIN = os.path.join(HARNESS, "bin", "genfacts")


def build_harness():
    """Build the Go harness binaries against /repo's working tree."""
    with Lock("gobuild"):
        shutil.copyfile(os.path.join(REPO, "go.sum"), os.path.join(HARNESS, "go.sum"))
        os.makedirs(os.path.join(HARNESS, "bin"), exist_ok=True)
        rc, out = sh(["go", "build"] + COVFLAGS + ["-o", "bin/", "./cmd/..."], cwd=HARNESS, env=GOENV, timeout=600)
        return rc == 0, out


def build_app_test(app, rewrite=None, race=False):
    """Build a test binary of a package-main app of /repo with /verif's overlay test injected
    (go test -c -overlay; /repo is not touched, go.mod/go.sum are used through copies).
    rewrite = (file name, old text, new text): that source file of the app is overlaid by a copy of the
    working-tree file in which the one occurrence of old text is replaced (used to rename a function that
    the injected test file then supplies itself)."""
    with Lock("gobuild"):
        mod = os.path.join(WORK, "modcopy")
        os.makedirs(mod, exist_ok=True)
        shutil.copyfile(os.path.join(REPO, "go.mod"), os.path.join(mod, "go.mod"))
        shutil.copyfile(os.path.join(REPO, "go.sum"), os.path.join(mod, "go.sum"))
        ov = os.path.join(WORK, "overlay_%s.json" % app)
        src = os.path.join(HARNESS, "overlay", app, "zz_verif_test.go")
        repl = {os.path.join(REPO, "apps", app, "zz_verif_test.go"): src}
        if rewrite:
            fn, old, new = rewrite
            text = open(os.path.join(REPO, "apps", app, fn)).read()
            if text.count(old) != 1:
                return False, "hook point %r occurs %d times in apps/%s/%s (expected once)" % (old, text.count(old), app, fn), None
            cp = os.path.join(WORK, "overlay_%s_%s" % (app, fn))
            with open(cp, "w") as f:
                f.write(text.replace(old, new))
            repl[os.path.join(REPO, "apps", app, fn)] = cp
        with open(ov, "w") as f:
            json.dump({"Replace": repl}, f)
        out_bin = os.path.join(HARNESS, "bin", app + (".race.test" if race else ".test"))
        rc, out = sh(["go", "test", "-c", "-vet=off"] + COVFLAGS + (["-race"] if race else []) + ["-modfile=" + os.path.join(mod, "go.mod"), "-overlay", ov,
                      "-o", out_bin, "./apps/" + app], cwd=REPO, env=GOENV, timeout=900)
        return rc == 0, out, out_bin


def build_app(app):
    """Build a package-main app of /repo as a binary."""
    with Lock("gobuild"):
        mod = os.path.join(WORK, "modcopy")
        os.makedirs(mod, exist_ok=True)
        shutil.copyfile(os.path.join(REPO, "go.mod"), os.path.join(mod, "go.mod"))
        shutil.copyfile(os.path.join(REPO, "go.sum"), os.path.join(mod, "go.sum"))
        out_bin = os.path.join(HARNESS, "bin", "app_" + app.replace("/", "_"))
        rc, out = sh(["go", "build"] + COVFLAGS + ["-modfile=" + os.path.join(mod, "go.mod"), "-o", out_bin, "./apps/" + app],
                     cwd=REPO, env=GOENV, timeout=900)
        return rc == 0, out, out_bin


def run_app_test(test_bin, cases, prop, timeout=1800, shards=8):
    """Run an overlay test binary over case lines (sharded); returns observation lines."""
    d = os.path.join(WORK, prop)
    os.makedirs(d, exist_ok=True)
    cases = list(cases)
    shards = max(1, min(shards, len(cases) // 20 or 1))
    size = (len(cases) + shards - 1) // shards
    chunks = [cases[i:i + size] for i in range(0, len(cases), size)]

    def one(ic):
        i, c = ic
        cf = os.path.join(d, "cases_%d.txt" % i)
        of = os.path.join(d, "obs_%d.txt" % i)
        wd = os.path.join(d, "scratch_%d" % i)
        shutil.rmtree(wd, ignore_errors=True)
        os.makedirs(wd, exist_ok=True)
        with open(cf, "w") as f:
            f.write("\n".join(c) + "\n")
        env = dict(GOENV, VERIF_CASES=cf, VERIF_OUT=of, VERIF_WORK=wd)
        rc, out = sh([test_bin, "-test.run", "TestVerifRun", "-test.timeout", "%ds" % timeout] + (["-test.gocoverdir", COVER_DIR] if COVER_DIR else []),
                     cwd=wd, env=env, timeout=timeout + 30)
        lines = open(of).read().splitlines() if os.path.exists(of) else []
        shutil.rmtree(wd, ignore_errors=True)
        return rc, out, lines

    from concurrent.futures import ThreadPoolExecutor
    with ThreadPoolExecutor(max_workers=len(chunks)) as ex:
        results = list(ex.map(one, enumerate(chunks)))
    lines, err = [], None
    for c, (rc, out, l) in zip(chunks, results):
        if (rc != 0 or len(l) != len(c)) and not err:
            err = "test binary exit %d, %d of %d lines: %s" % (rc, len(l), len(c), out[-1500:])
        lines.extend(l)
    return lines, err


def gen_facts():
    """Regenerate coq/gen/*.v from /repo.  Returns (ok, text, degraded list)."""
    if not os.path.exists(GENFACTS_BIN):
        return False, "genfacts binary missing", []
    with Lock("genfacts"):
        rc, out = sh([GENFACTS_BIN, "-repo", REPO, "-out", os.path.join(COQ, "gen"),
                      "-expected", os.path.join(COQ, "gen", "GenConsts.expected")],
                     env=GOENV, timeout=300)
        cd = os.path.join(HARNESS, "bin", "classdump")
        rc2, out2 = sh([cd, "-out", os.path.join(COQ, "gen")], env=GOENV, timeout=300)
    degraded = [l.split(" ", 1)[1] for l in out.splitlines() if l.startswith("DEGRADED ")]
    return rc == 0 and rc2 == 0, out + out2, degraded


def coq_build():
    """Full .vo build of the development.  Returns (ok, log, failed_files)."""
    with Lock("coq"):
        mk, proj = os.path.join(COQ, "Makefile"), os.path.join(COQ, "_CoqProject")
        if not os.path.exists(mk) or os.path.getmtime(mk) < os.path.getmtime(proj):
            rc, out = sh("coq_makefile -f _CoqProject -o Makefile", cwd=COQ, timeout=60)
            if rc != 0:
                return False, out, ["Makefile"]
        rc, out = sh("make -k -j16", cwd=COQ, timeout=3000)
        failed = re.findall(r'File "\./(theories/\w+\.v|gen/\w+\.v)", line \d+, characters [\d-]+:\nError', out)
        failed = sorted(set(failed))
        if rc != 0 and not failed:
            failed = ["(make failed)"]
        if rc != 0:
            # make -k leaves the old .vo of a file that failed and of everything that depends on it: remove them, so
            # that nothing stale can be loaded (the theorems of properties that do not depend on the failed file
            # have been rebuilt and stay checkable)
            rc2, todo = sh("make -k -n", cwd=COQ, timeout=300)
            for fn in set(re.findall(r'(theories/\w+|gen/\w+)\.v\b', todo)) | set(f[:-2] for f in failed if f.endswith(".v")):
                for ext in (".vo", ".vok", ".vos", ".glob"):
                    try:
                        os.remove(os.path.join(COQ, fn + ext))
                    except OSError:
                        pass
    return rc == 0, out, failed


def theorem_names(prop_id):
    """Names of the property's theorems in theories/P_<id>.v (prefix <id>_)."""
    src = open(os.path.join(COQ, "theories", "P_%s.v" % prop_id)).read()
    return re.findall(r'^Theorem (%s_\w+)' % prop_id, src, re.M)


def audit(prop_id, extra_requires=()):
    """Compile an audit file that prints the assumptions of each theorem of the property.
    Returns dict(theorems=[...], discharged=[...], axioms={thm: [..]}, log=...)."""
    names = theorem_names(prop_id)
    d = os.path.join(WORK, prop_id)
    os.makedirs(d, exist_ok=True)
    path = os.path.join(d, "Audit_%s.v" % prop_id)
    lines = ["From NTRIP Require Import P_%s." % prop_id]
    for n in names:
        lines.append('Goal True. idtac "BEGIN %s". exact I. Qed.' % n)
        lines.append("Print Assumptions %s." % n)
        lines.append('Goal True. idtac "END %s". exact I. Qed.' % n)
    with open(path, "w") as f:
        f.write("\n".join(lines) + "\n")
    rc, out = sh(["coqc", "-Q", os.path.join(COQ, "theories"), "NTRIP", "-Q", os.path.join(COQ, "gen"), "NTRIPGen",
                  path], cwd=d, timeout=1200)
    axioms = {}
    discharged = []
    for n in names:
        m = re.search(r'BEGIN %s\n(.*?)END %s' % (n, n), out, re.S)
        if m:
            body = m.group(1).strip()
            discharged.append(n)
            if body.startswith("Closed under the global context"):
                axioms[n] = []
            else:
                ax = re.findall(r'^(\S[\w.\']*)\s*:', body, re.M)
                axioms[n] = sorted(set(ax))
    return dict(theorems=names, discharged=discharged if rc == 0 else [], axioms=axioms, log=out, rc=rc)


FORBIDDEN = re.compile(r'\b(Admitted|admit|Axiom|Parameter|Conjecture|Unset Guard|bypass_check|Admit Obligations|'
                       r'type-in-type|impredicative-set)\b')


def grep_gate():
    """No Admitted/Axiom/... anywhere in the development."""
    bad = []
    for root, _, files in os.walk(COQ):
        for fn in files:
            if fn.endswith(".v"):
                p = os.path.join(root, fn)
                for i, line in enumerate(open(p), 1):
                    code = re.sub(r'\(\*.*?\*\)', '', line)
                    if FORBIDDEN.search(code):
                        bad.append("%s:%d: %s" % (p, i, line.strip()))
    return bad


def build_model():
    """Extract the model to OCaml and build the driver."""
    with Lock("ocaml"):
        rc, out = sh(["coqc", "-Q", os.path.join(COQ, "theories"), "NTRIP", "-Q", os.path.join(COQ, "gen"),
                      "NTRIPGen", os.path.join(COQ, "theories", "Extract.v")], cwd=OCAML, timeout=900)
        if rc != 0:
            return False, out
        rc, out2 = sh("dune build ./driver.exe 2>&1", cwd=OCAML, timeout=900)
        return rc == 0, out + out2


# --------------------------------------------------------------------------------------
# Steps B and C helpers
# --------------------------------------------------------------------------------------

def _run_chunk(args):
    cmd, data, timeout, env = args
    try:
        p = subprocess.run(cmd, input=data, stdout=subprocess.PIPE, stderr=subprocess.PIPE, timeout=timeout, env=env)
    except subprocess.TimeoutExpired:
        return None, "timeout"
    out = p.stdout.decode("utf-8", "replace").splitlines()
    if p.returncode != 0:
        return out, "exit %d: %s" % (p.returncode, p.stderr.decode("utf-8", "replace")[-2000:])
    return out, None


def run_lines(binary, prop, lines, timeout=1800, extra_args=(), env=None, mem_kb=None, shards=None):
    """Feed case lines to a line-oriented runner, get one observation line per case.
    Cases are independent, so the list is split over several processes."""
    cmd = [binary, prop] + list(extra_args)
    if mem_kb:
        cmd = ["bash", "-c", "ulimit -v %d; exec \"$@\"" % mem_kb, "x"] + cmd
    lines = list(lines)
    if shards is None:
        shards = max(1, min(14, len(lines) // 150))
    if shards <= 1:
        return _run_chunk((cmd, ("\n".join(lines) + "\n").encode(), timeout, env))
    size = (len(lines) + shards - 1) // shards
    chunks = [lines[i:i + size] for i in range(0, len(lines), size)]
    from concurrent.futures import ThreadPoolExecutor
    with ThreadPoolExecutor(max_workers=len(chunks)) as ex:
        results = list(ex.map(_run_chunk, [(cmd, ("\n".join(c) + "\n").encode(), timeout, env) for c in chunks]))
    out, err = [], None
    for c, (o, e) in zip(chunks, results):
        if e and not err:
            err = e
        if o is None:
            return None, err
        out.extend(o)
        if len(o) != len(c) and not err:
            err = "short output (%d of %d lines)" % (len(o), len(c))
    return out, err


def known_findings(prop_id):
    """Entries of known_findings.txt for a property: list of (kind, key, text)."""
    res = []
    if not os.path.exists(KNOWN):
        return res
    for line in open(KNOWN):
        line = line.strip()
        if not line or line.startswith("#"):
            continue
        m = re.match(r'(finding|fixed): property=(\S+) (.*)', line)
        if m and m.group(2) == prop_id:
            res.append((m.group(1), m.group(3)))
    return res


class Result:
    """Accumulates what a check run found; turns it into evidence, replay and exit code."""

    def __init__(self, prop_id, tier, seed):
        self.prop_id = prop_id
        self.tier = tier
        self.seed = seed
        self.t0 = time.time()
        self.proof = dict(theorems=[], discharged=[], axioms={}, failed_files=[], degraded=[], gate=[])
        self.proof_ok = True
        self.proof_notes = []
        self.corr_ok = True
        self.corr_notes = []
        self.evaluations = 0
        self.nontrivial = set()
        self.samples = []
        self.distribution = {}
        self.violations = []      # list of dict(case=..., why=...)
        self.known_hits = []
        self.extra = {}
        self.assumptions = []
        self.rule = ""
        self.trusted = []
        self.traces = 0
        self.exhaustive = None

    def count(self, key, n=1):
        self.distribution[key] = self.distribution.get(key, 0) + n

    def sample(self, s, limit=6):
        if len(self.samples) < limit:
            self.samples.append(s)

    def add_violation(self, case, why):
        self.violations.append(dict(case=case, why=why))

    def finish(self, level="proof", checker_cmd="", level_fallback=None):
        os.makedirs(EVIDENCE, exist_ok=True)
        os.makedirs(REPLAYS, exist_ok=True)
        wall = time.time() - self.t0
        n_thm = len(self.proof["theorems"])
        n_dis = len(self.proof["discharged"])
        exit_code = 0
        replay_path = None
        lines = []
        if self.violations:
            replay_path = os.path.join(REPLAYS, "%s-%d-%s.json" % (self.prop_id, self.seed, self.tier))
            with open(replay_path, "w") as f:
                by_why, keep = {}, []
                for v in self.violations:
                    by_why[v["why"]] = by_why.get(v["why"], 0) + 1
                    if by_why[v["why"]] <= 8:
                        keep.append(v)
                json.dump(dict(property=self.prop_id, seed=self.seed, tier=self.tier, kind="failing-input",
                               failing=keep[:60], counts_by_reason=by_why, proof_ok=self.proof_ok, corr_ok=self.corr_ok,
                               proof_notes=self.proof_notes, corr_notes=self.corr_notes[:20]), f, indent=1)
            lines.append("VIOLATION property=%s replay=%s" % (self.prop_id, replay_path))
            exit_code = 1
        elif not self.proof_ok or not self.corr_ok:
            replay_path = os.path.join(REPLAYS, "%s-%d-%s.json" % (self.prop_id, self.seed, self.tier))
            with open(replay_path, "w") as f:
                json.dump(dict(property=self.prop_id, seed=self.seed, tier=self.tier, kind="no-failing-input-found",
                               broken_theorems_or_files=self.proof["failed_files"],
                               undischarged=[t for t in self.proof["theorems"] if t not in self.proof["discharged"]],
                               proof_notes=self.proof_notes, correspondence_disagreements=self.corr_notes[:20],
                               searched=self.evaluations), f, indent=1)
            lines.append("VIOLATION property=%s replay=%s no-failing-input-found" % (self.prop_id, replay_path))
            exit_code = 1
        for k in self.known_hits:
            print("KNOWN-FINDING: property=%s %s" % (self.prop_id, k), flush=True)
        axioms_all = sorted(set(a for l in self.proof["axioms"].values() for a in l))
        cov = dict(
            obligations=max(n_thm, 1), discharged=n_dis,
            checker_cmd=checker_cmd or "make -C /verif/coq (coq_makefile, full .vo) ; coqc work/%s/Audit_%s.v" % (self.prop_id, self.prop_id),
            trusted_base=["Coq 8.16.1 kernel (coqc, vm_compute; no native_compute)",
                          "axioms reported by Print Assumptions: " + (", ".join(axioms_all) if axioms_all else "none (closed under the global context)")]
                         + self.trusted,
            theorems=self.proof["theorems"], axioms_per_theorem=self.proof["axioms"],
            failed_files=self.proof["failed_files"], degraded_constants=self.proof["degraded"],
            evaluations=self.evaluations, distinct_nontrivial=len(self.nontrivial), rule=self.rule,
            samples=self.samples or ["(none)"], distribution=self.distribution,
            traces_validated_against_impl=self.traces,
            correspondence_ok=self.corr_ok, proof_ok=self.proof_ok,
        )
        if self.proof.get("coqchk"):
            cov["coqchk"] = self.proof["coqchk"]
        if n_dis == 0:
            # nothing was discharged on this run: do not present proof-level counts
            cov["obligations_total"] = cov.pop("obligations")
            cov["discharged_count"] = cov.pop("discharged")
            cov["evaluations"] = max(cov["evaluations"], 1)
        if self.exhaustive is not None:
            cov["exhaustive"] = self.exhaustive
        cov.update(self.extra)
        ev = dict(property_id=self.prop_id, tier=self.tier, seed=self.seed, level=level, coverage=cov,
                  assumptions=self.assumptions, wall_s=round(wall, 2), violations=len(self.violations) + (0 if (self.proof_ok and self.corr_ok) or self.violations else 1))
        with open(os.path.join(EVIDENCE, "%s.json" % self.prop_id), "w") as f:
            json.dump(ev, f, indent=1)
        for l in lines:
            print(l, flush=True)
        log("%s %s: theorems %d/%d, cases %d (%d distinct non-trivial), violations %d, known %d, %.1fs" %
            (self.prop_id, self.tier, n_dis, n_thm, self.evaluations, len(self.nontrivial), len(self.violations),
             len(self.known_hits), wall))
        return exit_code


def step_A(res, need_files=()):
    """Facts + Coq build + audit + gate.  Marks res.proof_ok."""
    okb, outb = build_harness()
    if not okb:
        res.proof_ok = False
        res.corr_ok = False
        res.proof_notes.append("go build of the harness against /repo failed:\n" + outb[-3000:])
        return False
    okf, outf, degraded = gen_facts()
    res.proof["degraded"] = degraded
    if not okf:
        res.proof_ok = False
        res.proof_notes.append("genfacts failed:\n" + outf[-3000:])
    okc, outc, failed = coq_build()
    res.proof["failed_files"] = failed
    # a file that no longer builds matters to this property only if its own theorem file P_<id> (or something
    # that file depends on) is affected; that is decided by the audit below, which loads P_<id> and nothing else
    gate = grep_gate()
    res.proof["gate"] = gate
    if gate:
        res.proof_ok = False
        res.proof_notes.append("forbidden constructs: %s" % gate[:5])
    a = audit(res.prop_id)
    res.proof["theorems"] = a["theorems"]
    res.proof["discharged"] = a["discharged"]
    res.proof["axioms"] = a["axioms"]
    if a["rc"] != 0 or len(a["discharged"]) != len(a["theorems"]) or not a["theorems"]:
        res.proof_ok = False
        res.proof_notes.append("the theorems of %s no longer check (files that failed to build: %s):\n%s\n%s" %
                               (res.prop_id, failed, a["log"][-2000:], "" if okc else outc[-3000:]))
    if res.tier == "thorough" and res.proof_ok and res.prop_id not in ("C05", "C08"):
        # independent re-check of the compiled theorems and everything they depend on (coqchk); the two properties with
        # Flocq/Interval dependencies are left out: coqchk does not get through those libraries in two hours
        rc, outk = sh(["coqchk", "-silent", "-o", "-Q", os.path.join(COQ, "theories"), "NTRIP", "-Q", os.path.join(COQ, "gen"), "NTRIPGen",
                       "NTRIP.P_%s" % res.prop_id], cwd=COQ, timeout=3600)
        clean = all(k in outk for k in ("* Axioms: <none>", "type-in-type: <none>", "unsafe (co)fixpoints: <none>", "positivity is assumed: <none>"))
        res.proof["coqchk"] = "ok: no axioms, no type-in-type, no unsafe fixpoints, no assumed positivity" if (rc == 0 and clean) else outk[-1500:]
        if rc != 0 or not clean:
            res.proof_ok = False
            res.proof_notes.append("coqchk did not accept NTRIP.P_%s:\n%s" % (res.prop_id, outk[-2000:]))
    okm, outm = build_model()
    if not okm:
        res.corr_ok = False
        res.corr_notes.append("model extraction/build failed:\n" + outm[-3000:])
        return False
    return True


def rng_for(seed, tag):
    h = hashlib.sha256(("%d/%s" % (seed, tag)).encode()).digest()
    return random.Random(int.from_bytes(h[:8], "big"))

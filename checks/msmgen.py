"""Abstract MSM message generator (text form understood by the OCaml 'msmspec' runner)."""
import gen

SAT7 = dict(w=8, e=4, f=10, r=14)
W4 = dict(rd=15, prd=22, lock=4, cnr=6, rrd=15)
W7 = dict(rd=20, prd=24, lock=10, cnr=10, rrd=15)


def sval(rng, w, style):
    lo, hi = -(1 << (w - 1)), (1 << (w - 1)) - 1
    if style == "zero":
        return 0
    if style == "min":
        return lo
    if style == "max":
        return hi
    r = rng.random()
    if r < 0.1:
        return lo
    if r < 0.2:
        return hi
    if r < 0.3:
        return rng.choice([0, -1, 1])
    if r < 0.45:
        # +-2^k and neighbours: the minimum / invalid marker / carry point of some field at some resolution
        k = rng.randint(0, w - 1)
        return max(lo, min(hi, rng.choice([-1, 1]) * (1 << k) + rng.choice([-1, 0, 0, 0, 1])))
    return rng.randint(lo, hi)


def uval(rng, w, style):
    hi = (1 << w) - 1
    if style == "zero":
        return 0
    if style == "max":
        return hi
    if style == "min":
        return 0
    r = rng.random()
    if r < 0.15:
        return hi
    if r < 0.3:
        return 0
    return rng.randint(0, hi)


def mask_shape(rng):
    r = rng.random()
    if r < 0.06:
        return 0, 0
    if r < 0.10:
        return rng.randint(1, 5), 0
    if r < 0.14:
        return 0, rng.randint(1, 5)
    if r < 0.2:
        return 1, 1
    if r < 0.24:
        return 1, 32
    if r < 0.28:
        return 64, 1
    if r < 0.32:
        return 8, 8
    if r < 0.36:
        return rng.choice([(2, 32), (32, 2), (16, 4), (4, 16), (21, 3)])
    nsat = rng.randint(1, 12)
    nsig = rng.randint(1, min(6, 64 // nsat))
    return nsat, nsig


def abstract(rng, k7=None, pad=None, style=None, multi=None, shape=None):
    k7 = rng.random() < 0.5 if k7 is None else k7
    mtype = rng.choice(gen.MSM7 if k7 else gen.MSM4)
    nsat, nsig = shape or mask_shape(rng)
    sats = sorted(rng.sample(range(1, 65), nsat))
    sigs = sorted(rng.sample(range(1, 33), nsig))
    density = rng.choice([0.0, 0.15, 0.5, 0.9, 1.0])
    rows = [[1 if rng.random() < density else 0 for _ in range(nsig)] for _ in range(nsat)]
    ncells = sum(sum(r) for r in rows)
    multi = (rng.random() < 0.3) if multi is None else multi
    if multi and ncells == 0:
        if nsat and nsig:
            rows[rng.randrange(nsat)][rng.randrange(nsig)] = 1
            ncells = 1
        else:
            multi = False
    style = style or rng.choice(["random", "random", "random", "zero", "min", "max", "lastzero"])
    W = W7 if k7 else W4
    sat = []
    for _ in range(nsat):
        st = style if style != "lastzero" else "random"
        sat.append("%d/%d/%d/%d" % (uval(rng, 8, st), uval(rng, 4, st) if k7 else 0, uval(rng, 10, st), sval(rng, 14, st) if k7 else 0))
    sig = []
    for i in range(ncells):
        st = style
        if style == "lastzero":
            st = "zero" if i >= ncells - rng.randint(1, 3) else "random"
        sig.append("%d/%d/%d/%d/%d/%d" % (sval(rng, W["rd"], st), sval(rng, W["prd"], st), uval(rng, W["lock"], st),
                                          0 if st in ("zero", "min") else rng.getrandbits(1), uval(rng, W["cnr"], st),
                                          sval(rng, W["rrd"], st) if k7 else 0))
    if mtype in (1084, 1087):
        ts = (rng.randint(0, 6) << 27) | rng.randint(0, 86399999)
    else:
        ts = rng.randint(0, 604799999)
    if pad is None:
        pad = rng.choice([0, 0, 0, 1, 2, 3, 4, 5, 6, 7, 8, 9, 10, 11, 12, rng.randint(13, 60)])
    rows_s = ".".join(("".join(str(c) for c in r) if r else "e") for r in rows) or "-"
    toks = ["k7=%d" % k7, "type=%d" % mtype, "st=%d" % rng.getrandbits(12), "ts=%d" % ts, "mm=%d" % multi,
            "iods=%d" % rng.getrandbits(3), "sess=%d" % rng.getrandbits(7), "clk=%d" % rng.getrandbits(2),
            "ext=%d" % rng.getrandbits(2), "smooth=%d" % rng.getrandbits(1), "smint=%d" % rng.getrandbits(3),
            "sats=%s" % (".".join(map(str, sats)) or "-"), "sigs=%s" % (".".join(map(str, sigs)) or "-"),
            "rows=%s" % rows_s, "sat=%s" % (";".join(sat) or "-"), "sig=%s" % (";".join(sig) or "-"), "pad=%d" % pad]
    meta = dict(k7=k7, nsat=nsat, nsig=nsig, ncells=ncells, pad=pad, style=style, multi=multi)
    return " ".join(toks), meta

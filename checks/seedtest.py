#!/usr/bin/env python3
"""seedtest.py <seed id> <demo target dir in repo> <demo run regexp> <check id> [<check id>...]

Confirms a seeded change produced by a sub-agent (files in /tmp/seed_out/<seed id>/ or already in
/verif/seeded/<seed id>/): in a scratch worktree the patch applies, the repository builds, the 170 baseline
tests still pass, the demonstration fails with the change and passes without it.  Then the patch is applied to
/repo, the named checks are run, and /repo is restored.  Writes /verif/seeded/<seed id>/meta.json."""
import json, os, shutil, subprocess, sys, time

VERIF = "/verif"
ENV = dict(os.environ, GOFLAGS="-mod=mod", GOPROXY="off", GOSUMDB="off", GOTOOLCHAIN="local")


def sh(cmd, cwd=None, timeout=3000):
    p = subprocess.run(cmd, shell=True, cwd=cwd, env=ENV, stdout=subprocess.PIPE, stderr=subprocess.STDOUT, timeout=timeout)
    return p.returncode, p.stdout.decode("utf-8", "replace")


def baseline(tree):
    rc, out = sh("go test -json -vet=off -count=1 -timeout 25m ./...", cwd=tree)
    res = {}
    for line in out.splitlines():
        try:
            e = json.loads(line)
        except Exception:
            continue
        if e.get("Test") and "/" not in e["Test"] and e.get("Action") in ("pass", "fail"):
            res["%s::%s" % (e["Package"], e["Test"])] = e["Action"]
    base = json.load(open("/root/.vp/BASELINE.json"))
    missing = [t for t in base["stable_pass"] if res.get(t) != "pass"]
    return missing


def main():
    sid, demo_dir, demo_run = sys.argv[1], sys.argv[2], sys.argv[3]
    checks = sys.argv[4:]
    src = "/tmp/seed_out/%s" % sid
    dst = os.path.join(VERIF, "seeded", sid)
    os.makedirs(dst, exist_ok=True)
    if os.path.isdir(src):
        for fn in os.listdir(src):
            if fn.endswith((".diff", ".go", ".md")):
                shutil.copyfile(os.path.join(src, fn), os.path.join(dst, fn))
    patch = os.path.join(dst, "patch.diff")
    demo = os.environ.get("SEED_DEMO") or sorted(f for f in os.listdir(dst) if f.endswith(".go"))[0]
    wt = "/tmp/seedverify_%s" % sid
    sh("git -C /repo worktree remove --force %s" % wt)
    rc, out = sh("git -C /repo worktree add -q --detach %s HEAD" % wt)
    meta = dict(seed=sid, checks={}, ran=[])
    try:
        demo_path = os.path.join(wt, demo_dir, "zz_seed_demo_test.go")
        os.makedirs(os.path.dirname(demo_path), exist_ok=True)
        shutil.copyfile(os.path.join(dst, demo), demo_path)
        rc0, out0 = sh("go test -vet=off -count=1 -run '%s' ./%s/" % (demo_run, demo_dir), cwd=wt)
        meta["demo_without_change"] = "pass" if rc0 == 0 else "FAIL"
        os.remove(demo_path)
        rc, out = sh("git apply %s" % patch, cwd=wt)
        meta["patch_applies"] = rc == 0
        rc, out = sh("go build ./...", cwd=wt)
        meta["builds"] = rc == 0
        missing = baseline(wt)
        meta["baseline_missing_with_change"] = missing
        shutil.copyfile(os.path.join(dst, demo), demo_path)
        rc1, out1 = sh("go test -vet=off -count=1 -run '%s' ./%s/" % (demo_run, demo_dir), cwd=wt)
        meta["demo_with_change"] = "pass" if rc1 == 0 else "fail"
        meta["ran"] += ["git apply patch.diff (scratch worktree)", "go build ./...", "go test -json ./... vs BASELINE.json",
                        "go test -run '%s' ./%s/ with and without the change" % (demo_run, demo_dir)]
    finally:
        sh("git -C /repo worktree remove --force %s" % wt)
    # now the checks against /repo itself
    rc, out = sh("git -C /repo status --porcelain")
    if out.strip():
        print("refusing: /repo is not clean:\n" + out)
        sys.exit(2)
    rc, out = sh("git -C /repo apply %s" % patch)
    try:
        for c in checks:
            t0 = time.time()
            rc, out = sh("python3 checks/check.py %s --tier quick" % c, cwd=VERIF, timeout=3000)
            viol = [l for l in out.splitlines() if l.startswith("VIOLATION")]
            meta["checks"][c] = dict(exit=rc, violation_lines=viol, wall_s=round(time.time() - t0, 1), tail=out.splitlines()[-2:])
            # keep the replay
            for l in viol:
                for tok in l.split():
                    if tok.startswith("replay="):
                        rp = tok[7:]
                        if os.path.exists(rp):
                            shutil.copyfile(rp, os.path.join(dst, "replay-%s.json" % c))
    finally:
        sh("git -C /repo checkout -- .")
        sh("git -C /repo clean -fdq")
    meta["caught_by"] = [c for c, r in meta["checks"].items() if r["exit"] == 1 and r["violation_lines"] and "no-failing-input-found" not in r["violation_lines"][0]]
    meta["flagged_without_input_by"] = [c for c, r in meta["checks"].items() if r["exit"] == 1 and r["violation_lines"] and "no-failing-input-found" in r["violation_lines"][0]]
    old = {}
    mp = os.path.join(dst, "meta.json")
    if os.path.exists(mp):
        old = json.load(open(mp))
    old.update(meta)
    json.dump(old, open(mp, "w"), indent=1)
    print(json.dumps(meta, indent=1))


if __name__ == "__main__":
    main()

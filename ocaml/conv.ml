(* conv.ml - conversions between OCaml values and the extracted datatypes *)
open Model

let rec nat_of_int (i : int) : nat = if i <= 0 then O else S (nat_of_int (i - 1))
let rec int_of_nat (n : nat) : int = match n with O -> 0 | S m -> 1 + int_of_nat m

let rec pos_of_int (i : int) : positive =
  if i <= 1 then XH else if i land 1 = 0 then XO (pos_of_int (i lsr 1)) else XI (pos_of_int (i lsr 1))
let n_of_int (i : int) : n = if i <= 0 then N0 else Npos (pos_of_int i)
let rec int_of_pos (p : positive) : int =
  match p with XH -> 1 | XO q -> 2 * int_of_pos q | XI q -> 2 * int_of_pos q + 1
let int_of_n (x : n) : int = match x with N0 -> 0 | Npos p -> int_of_pos p
let z_of_int (i : int) : z = if i = 0 then Z0 else if i > 0 then Zpos (pos_of_int i) else Zneg (pos_of_int (- i))
let int_of_z (x : z) : int = match x with Z0 -> 0 | Zpos p -> int_of_pos p | Zneg p -> - (int_of_pos p)

(* bits of a positive, least significant first *)
let rec pos_bits (p : positive) : bool list =
  match p with XH -> [true] | XO q -> false :: pos_bits q | XI q -> true :: pos_bits q

let hex_of_bits_lsb (bits : bool list) : string =
  (* bits least significant first *)
  let rec nibbles bs acc =
    match bs with
    | [] -> acc
    | _ ->
      let take k l = let rec go k l a = if k = 0 then (List.rev a, l) else match l with [] -> (List.rev a, []) | x :: t -> go (k-1) t (x :: a) in go k l [] in
      let (nb, rest) = take 4 bs in
      let v = List.fold_right (fun b a -> 2 * a + (if b then 1 else 0)) nb 0 in
      nibbles rest (v :: acc)
  in
  let ns = nibbles bits [] in
  let ns = let rec strip l = match l with 0 :: (_ :: _ as t) -> strip t | _ -> l in strip ns in
  String.concat "" (List.map (fun v -> Printf.sprintf "%x" v) ns)

let hex_of_pos p = hex_of_bits_lsb (pos_bits p)
let hex_of_n (x : n) : string = match x with N0 -> "0" | Npos p -> hex_of_pos p
let hex_of_z (x : z) : string = match x with Z0 -> "0" | Zpos p -> hex_of_pos p | Zneg p -> "-" ^ hex_of_pos p

(* parse a hexadecimal magnitude (arbitrary length) into N *)
let n_of_hex (s : string) : n =
  let v c = match c with
    | '0'..'9' -> Char.code c - 48 | 'a'..'f' -> Char.code c - 87 | 'A'..'F' -> Char.code c - 55
    | _ -> failwith ("bad hex digit in " ^ s) in
  (* build positive from most significant digit *)
  let acc = ref N0 in
  let dbl x = match x with N0 -> N0 | Npos p -> Npos (XO p) in
  let dbl1 x = match x with N0 -> Npos XH | Npos p -> Npos (XI p) in
  String.iter (fun c ->
    let d = v c in
    List.iter (fun k -> acc := if (d lsr k) land 1 = 1 then dbl1 !acc else dbl !acc) [3;2;1;0]) s;
  !acc
let z_of_hex (s : string) : z =
  if String.length s > 0 && s.[0] = '-' then
    (match n_of_hex (String.sub s 1 (String.length s - 1)) with N0 -> Z0 | Npos p -> Zneg p)
  else (match n_of_hex s with N0 -> Z0 | Npos p -> Zpos p)

(* byte strings as hex, "-" for empty *)
let bytes_of_hex (s : string) : n list =
  if s = "-" then [] else begin
    let len = String.length s / 2 in
    List.init len (fun i -> n_of_int (int_of_string ("0x" ^ String.sub s (2*i) 2)))
  end
let hex_of_bytes (l : n list) : string =
  if l = [] then "-" else String.concat "" (List.map (fun b -> Printf.sprintf "%02x" (int_of_n b)) l)

let split_ws (s : string) : string list =
  List.filter (fun x -> x <> "") (String.split_on_char ' ' s)

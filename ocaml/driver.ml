(* driver.ml - runs the extracted model (and the extracted specification, as the
   oracle) on the cases of one property.  Usage: model <property> < cases > obs *)
open Model
open Conv

let runners : (string, string list -> string) Hashtbl.t = Hashtbl.create 16
let register name f = Hashtbl.replace runners name f

(* ---- C14 ----  case: u|s <hexbuf> <pos> <len>
   obs: <model result> | <spec result>      (hex values) *)
let () = register "c14" (fun f ->
  match f with
  | [kind; hb; pos; len] ->
    let buf = bytes_of_hex hb in
    let p = nat_of_int (int_of_string pos) and l = nat_of_int (int_of_string len) in
    let inrange = int_of_string pos + int_of_string len <= 8 * List.length buf in
    if kind = "u" then begin
      let m = match get_u buf p l with Ok v -> "ok " ^ hex_of_n v | Err _ -> "err" | Panic -> "panic" in
      let s = if inrange then "ok " ^ hex_of_n (n_of_bits (slice (bits_of buf) p l)) else "undef" in
      m ^ " | " ^ s
    end else begin
      let m = match get_s buf p l with Ok v -> "ok " ^ hex_of_z v | Err _ -> "err" | Panic -> "panic" in
      let s = if inrange then "ok " ^ hex_of_z (z_of_bits_2c (slice (bits_of buf) p l)) else "undef" in
      m ^ " | " ^ s
    end
  | _ -> failwith "c14: bad case")

(* ---- framing ---- *)
let err_name (e : err) : string = match e with
  | ErrEmpty -> "ErrEmpty" | ErrTooShort -> "ErrTooShort" | ErrPreamble -> "ErrPreamble"
  | ErrReserved -> "ErrReserved" | ErrZeroLength -> "ErrZeroLength" | ErrIncomplete -> "ErrIncomplete"
  | ErrCRC -> "ErrCRC" | ErrNotMSM -> "ErrNotMSM" | ErrWrongType -> "ErrWrongType"
  | ErrCellMask -> "ErrCellMask" | ErrOverrun -> "ErrOverrun" | ErrTimestampRange -> "ErrTimestampRange"
  | ErrGlonassMillis -> "ErrGlonassMillis" | ErrUnknownType -> "ErrUnknownType" | ErrFuel -> "ErrFuel"
let opt_err o = match o with None -> "-" | Some e -> err_name e

let msg_fields (m : msg) : string =
  let sent = match m.msent with
    | None -> "-" | Some (Ok t) -> string_of_int (int_of_z t)
    | Some (Err e) -> "E:" ^ err_name e | Some Panic -> "panic" in
  let sow = match m.msow with None -> "-" | Some t -> string_of_int (int_of_z t) in
  Printf.sprintf "%d,%s,%s,%d,%s,%s" (int_of_z m.mtype) (hex_of_bytes m.raw) (opt_err m.memsg)
    (int_of_n m.mts) sent sow

(* oracle for C01/C02: every typed message is a valid frame whose type is the frame's;
   the raw bytes concatenate to the input; no message is empty *)
let () = register "stream" (fun f ->
  match f with
  | _ :: t :: _lvl :: hx :: _ ->
    let input = bytes_of_hex hx in
    let h = new_handler (z_of_int (int_of_string t)) in
    (match handle_stream h input with
     | Ok (ms, _) ->
       Printf.sprintf "n=%d %s closed=1" (List.length ms) (String.concat ";" (List.map msg_fields ms))
     | Err e -> "err " ^ err_name e
     | Panic -> "panic")
  | _ -> failwith "stream: bad case")

let () = register "getmsg" (fun f ->
  match f with
  | _ :: t :: _lvl :: hx :: _ ->
    let input = bytes_of_hex hx in
    let h = new_handler (z_of_int (int_of_string t)) in
    (match get_message h input with
     | Ok (None, _) -> "nil ret=ErrEmpty"
     | Ok (Some m, _) -> msg_fields m ^ " ret=" ^ opt_err m.merr
     | Err e -> "err " ^ err_name e
     | Panic -> "panic")
  | _ -> failwith "getmsg: bad case")

(* oracles on implementation observations: "validframe <hex>" -> 1/0 and the frame type *)
let () = register "validframe" (fun f ->
  match f with
  | [hx] -> let b = bytes_of_hex hx in
    Printf.sprintf "%d %d" (if valid_frameb b then 1 else 0) (int_of_n (frame_type b))
  | _ -> failwith "validframe: bad case")

(* ---- time histories (C06, C17) ---- *)
let constellation_of_char c = match c with
  | 'G' -> GPS | 'E' -> Galileo | 'R' -> Glonass | 'C' -> Beidou | _ -> failwith "bad constellation"
(* event syntax: O<c><4|7>:<u ns>  |  B<c><4|7>:<ts> *)
let parse_event (s : string) : event =
  let c = constellation_of_char s.[1] in
  let k7 = s.[2] = '7' in
  let v = String.sub s 4 (String.length s - 4) in
  if s.[0] = 'O' then Obs (c, k7, z_of_int (int_of_string v)) else Bad (c, k7, n_of_int (int_of_string v))
let report_str ((sent, sow) : (z res option) * (z option)) : string =
  let a = match sent with None -> "-" | Some (Ok t) -> string_of_int (int_of_z t)
    | Some (Err e) -> "E:" ^ err_name e | Some Panic -> "panic" in
  let b = match sow with None -> "-" | Some t -> string_of_int (int_of_z t) in
  a ^ "," ^ b

(* histspec <need_after 0|1> <T> ev...  ->  adm=<0|1> frames=<hex,hex,..> exp=<sent,sow;..> *)
let () = register "histspec" (fun f ->
  match f with
  | _ :: na :: t :: evs ->
    let evs = List.map parse_event evs in
    let tz = z_of_int (int_of_string t) in
    let adm = admissibleb (na = "1") tz evs in
    let frames = List.map (fun e -> hex_of_bytes (event_frame e)) evs in
    let exp = List.map (fun e -> match answer e with
      | Some (u, s) -> string_of_int (int_of_z u) ^ "," ^ string_of_int (int_of_z s)
      | None -> "E,-") evs in
    Printf.sprintf "adm=%d frames=%s exp=%s" (if adm then 1 else 0) (String.concat "," frames) (String.concat ";" exp)
  | _ -> failwith "histspec: bad case")

(* hist <T> <lvl> <mode> <hex,hex,...>  ->  sent,sow;...   (model: GetMessage frame by frame) *)
let () = register "hist" (fun f ->
  match f with
  | _ :: t :: _lvl :: _mode :: frames :: _ ->
    let fs = List.map bytes_of_hex (String.split_on_char ',' frames) in
    let h = new_handler (z_of_int (int_of_string t)) in
    (match run_frames h fs with
     | Ok (rs, _) -> String.concat ";" (List.map report_str rs)
     | Err e -> "err " ^ err_name e
     | Panic -> "panic")
  | _ -> failwith "hist: bad case")

let () =
  if Array.length Sys.argv < 2 then (prerr_endline "usage: model <property> < cases"; exit 2);
  let r = try Hashtbl.find runners Sys.argv.(1) with Not_found -> (prerr_endline "model: unknown property"; exit 2) in
  let out = Buffer.create (1 lsl 16) in
  (try
    while true do
      let line = input_line stdin in
      if String.length line > 0 then begin
        Buffer.add_string out (r (split_ws line)); Buffer.add_char out '\n';
        if Buffer.length out > (1 lsl 16) then (print_string (Buffer.contents out); Buffer.clear out)
      end
    done
  with End_of_file -> ());
  print_string (Buffer.contents out)

(* driver.ml - runs the extracted model (and the extracted specification, as the
   oracle) on the cases of one property.  Usage: model <property> < cases > obs *)
open Model
open Conv

let runners : (string, string list -> string) Hashtbl.t = Hashtbl.create 16
let register name f = Hashtbl.replace runners name f

(* ---- C14 ----  case: u|s <hexbuf> <pos> <len>
   obs: <model result> | <spec result>      (hex values) *)
let () = register "c14" (fun f ->
  match f with
  | [kind; hb; pos; len] ->
    let buf = bytes_of_hex hb in
    let p = nat_of_int (int_of_string pos) and l = nat_of_int (int_of_string len) in
    let inrange = int_of_string pos + int_of_string len <= 8 * List.length buf in
    if kind = "u" then begin
      let m = match get_u buf p l with Ok v -> "ok " ^ hex_of_n v | Err _ -> "err" | Panic -> "panic" in
      let s = if inrange then "ok " ^ hex_of_n (n_of_bits (slice (bits_of buf) p l)) else "undef" in
      m ^ " | " ^ s
    end else begin
      let m = match get_s buf p l with Ok v -> "ok " ^ hex_of_z v | Err _ -> "err" | Panic -> "panic" in
      let s = if inrange then "ok " ^ hex_of_z (z_of_bits_2c (slice (bits_of buf) p l)) else "undef" in
      m ^ " | " ^ s
    end
  | _ -> failwith "c14: bad case")

let () =
  if Array.length Sys.argv < 2 then (prerr_endline "usage: model <property> < cases"; exit 2);
  let r = try Hashtbl.find runners Sys.argv.(1) with Not_found -> (prerr_endline "model: unknown property"; exit 2) in
  let out = Buffer.create (1 lsl 16) in
  (try
    while true do
      let line = input_line stdin in
      if String.length line > 0 then begin
        Buffer.add_string out (r (split_ws line)); Buffer.add_char out '\n';
        if Buffer.length out > (1 lsl 16) then (print_string (Buffer.contents out); Buffer.clear out)
      end
    done
  with End_of_file -> ());
  print_string (Buffer.contents out)

(* driver.ml - runs the extracted model (and the extracted specification, as the
   oracle) on the cases of one property.  Usage: model <property> < cases > obs *)
open Model
open Conv

let runners : (string, string list -> string) Hashtbl.t = Hashtbl.create 16
let register name f = Hashtbl.replace runners name f

(* ---- C14 ----  case: u|s <hexbuf> <pos> <len>
   obs: <model result> | <spec result>      (hex values) *)
let () = register "c14" (fun f ->
  match f with
  | [kind; hb; pos; len] ->
    let buf = bytes_of_hex hb in
    let p = nat_of_int (int_of_string pos) and l = nat_of_int (int_of_string len) in
    let inrange = int_of_string pos + int_of_string len <= 8 * List.length buf in
    if kind = "u" then begin
      let m = match get_u buf p l with Ok v -> "ok " ^ hex_of_n v | Err _ -> "err" | Panic -> "panic" in
      let s = if inrange then "ok " ^ hex_of_n (n_of_bits (slice (bits_of buf) p l)) else "undef" in
      m ^ " | " ^ s
    end else begin
      let m = match get_s buf p l with Ok v -> "ok " ^ hex_of_z v | Err _ -> "err" | Panic -> "panic" in
      let s = if inrange then "ok " ^ hex_of_z (z_of_bits_2c (slice (bits_of buf) p l)) else "undef" in
      m ^ " | " ^ s
    end
  | _ -> failwith "c14: bad case")

(* ---- framing ---- *)
let err_name (e : err) : string = match e with
  | ErrEmpty -> "ErrEmpty" | ErrTooShort -> "ErrTooShort" | ErrPreamble -> "ErrPreamble"
  | ErrReserved -> "ErrReserved" | ErrZeroLength -> "ErrZeroLength" | ErrIncomplete -> "ErrIncomplete"
  | ErrCRC -> "ErrCRC" | ErrNotMSM -> "ErrNotMSM" | ErrWrongType -> "ErrWrongType"
  | ErrCellMask -> "ErrCellMask" | ErrOverrun -> "ErrOverrun" | ErrTimestampRange -> "ErrTimestampRange"
  | ErrGlonassMillis -> "ErrGlonassMillis" | ErrUnknownType -> "ErrUnknownType" | ErrFuel -> "ErrFuel"
let opt_err o = match o with None -> "-" | Some e -> err_name e

let msg_fields (m : msg) : string =
  let sent = match m.msent with
    | None -> "-" | Some (Ok t) -> string_of_int (int_of_z t)
    | Some (Err e) -> "E:" ^ err_name e | Some Panic -> "panic" in
  let sow = match m.msow with None -> "-" | Some t -> string_of_int (int_of_z t) in
  Printf.sprintf "%d,%s,%s,%d,%s,%s" (int_of_z m.mtype) (hex_of_bytes m.raw) (opt_err m.memsg)
    (int_of_n m.mts) sent sow

(* oracle for C01/C02: every typed message is a valid frame whose type is the frame's;
   the raw bytes concatenate to the input; no message is empty *)
let () = register "stream" (fun f ->
  match f with
  | _ :: t :: _lvl :: hx :: _ ->
    let input = bytes_of_hex hx in
    let h = new_handler (z_of_int (int_of_string t)) in
    (match handle_stream h input with
     | Ok (ms, _) ->
       Printf.sprintf "n=%d %s closed=1" (List.length ms) (String.concat ";" (List.map msg_fields ms))
     | Err e -> "err " ^ err_name e
     | Panic -> "panic")
  | _ -> failwith "stream: bad case")

let () = register "getmsg" (fun f ->
  match f with
  | _ :: t :: _lvl :: hx :: _ ->
    let input = bytes_of_hex hx in
    let h = new_handler (z_of_int (int_of_string t)) in
    (match get_message h input with
     | Ok (None, _) -> "nil ret=ErrEmpty"
     | Ok (Some m, _) -> msg_fields m ^ " ret=" ^ opt_err m.merr
     | Err e -> "err " ^ err_name e
     | Panic -> "panic")
  | _ -> failwith "getmsg: bad case")

(* oracles on implementation observations: "validframe <hex>" -> 1/0 and the frame type *)
let () = register "validframe" (fun f ->
  match f with
  | [hx] -> let b = bytes_of_hex hx in
    Printf.sprintf "%d %d" (if valid_frameb b then 1 else 0) (int_of_n (frame_type b))
  | _ -> failwith "validframe: bad case")

(* ---- time histories (C06, C17) ---- *)
let constellation_of_char c = match c with
  | 'G' -> GPS | 'E' -> Galileo | 'R' -> Glonass | 'C' -> Beidou | _ -> failwith "bad constellation"
(* event syntax: O<c><4|7>:<u ns>  |  B<c><4|7>:<ts> *)
let parse_event (s : string) : event =
  let c = constellation_of_char s.[1] in
  let k7 = s.[2] = '7' in
  let v = String.sub s 4 (String.length s - 4) in
  if s.[0] = 'O' then Obs (c, k7, z_of_int (int_of_string v)) else Bad (c, k7, n_of_int (int_of_string v))
let report_str ((sent, sow) : (z res option) * (z option)) : string =
  let a = match sent with None -> "-" | Some (Ok t) -> string_of_int (int_of_z t)
    | Some (Err e) -> "E:" ^ err_name e | Some Panic -> "panic" in
  let b = match sow with None -> "-" | Some t -> string_of_int (int_of_z t) in
  a ^ "," ^ b

(* histspec <need_after 0|1> <T> ev...  ->  adm=<0|1> frames=<hex,hex,..> exp=<sent,sow;..> *)
let () = register "histspec" (fun f ->
  match f with
  | _ :: na :: t :: evs ->
    let evs = List.map parse_event evs in
    let tz = z_of_int (int_of_string t) in
    let adm = admissibleb (na = "1") tz evs in
    let frames = List.map (fun e -> hex_of_bytes (event_frame e)) evs in
    let exp = List.map (fun e -> match answer e with
      | Some (u, s) -> string_of_int (int_of_z u) ^ "," ^ string_of_int (int_of_z s)
      | None -> "E,-") evs in
    Printf.sprintf "adm=%d frames=%s exp=%s" (if adm then 1 else 0) (String.concat "," frames) (String.concat ";" exp)
  | _ -> failwith "histspec: bad case")

(* hist <T> <lvl> <mode> <hex,hex,...>  ->  sent,sow;...   (model: GetMessage frame by frame) *)
let () = register "hist" (fun f ->
  match f with
  | _ :: t :: _lvl :: _mode :: frames :: _ ->
    let fs = List.map bytes_of_hex (String.split_on_char ',' frames) in
    let h = new_handler (z_of_int (int_of_string t)) in
    (match run_frames h fs with
     | Ok (rs, _) -> String.concat ";" (List.map report_str rs)
     | Err e -> "err " ^ err_name e
     | Panic -> "panic")
  | _ -> failwith "hist: bad case")

(* ---- MSM / station decoding (C04, C05, C07) ---- *)
let b01 b = if b then "1" else "0"
let join_n sep (l : n list) = if l = [] then "-" else String.concat sep (List.map (fun x -> string_of_int (int_of_n x)) l)
let dash s = if s = "" then "-" else s

let header_view (h : header) : string =
  let rows = List.map (fun r -> if r = [] then "e" else String.concat "" (List.map b01 r)) h.h_cells in
  let rs = if rows = [] then "-" else String.concat "." rows in
  Printf.sprintf "H:%d,%d,%d,%s,%d,%d,%d,%d,%s,%d,%s,%s,%s,%s,%s,%s,%d"
    (int_of_n h.h_type) (int_of_n h.h_station) (int_of_n h.h_ts) (b01 h.h_multi) (int_of_n h.h_iods)
    (int_of_n h.h_sess) (int_of_n h.h_clk) (int_of_n h.h_extclk) (b01 h.h_smooth) (int_of_n h.h_smint)
    (hex_of_n h.h_satmask) (hex_of_n h.h_sigmask) (hex_of_n h.h_cellmask)
    (join_n "." h.h_sats) (join_n "." h.h_sigs) rs (int_of_nat h.h_ncells)

let msm_view (m : msm) : string =
  let sats = List.map (fun s -> Printf.sprintf "%d/%d/%d/%d/%d" (int_of_n s.s_id) (int_of_n s.s_whole)
                          (int_of_n s.s_ext) (int_of_n s.s_frac) (int_of_z s.s_rate)) m.m_sats in
  let rows = List.map (fun r ->
      if r = [] then "e" else
      String.concat "," (List.map (fun c -> Printf.sprintf "%d:%d/%d/%d/%d/%s/%d/%d" (int_of_n c.g_sat) (int_of_n c.g_id)
                                     (int_of_z c.g_rd) (int_of_z c.g_prd) (int_of_n c.g_lock) (b01 c.g_half)
                                     (int_of_n c.g_cnr) (int_of_z c.g_rrd)) r)) m.m_sigs in
  "msm " ^ header_view m.m_hdr ^ "|S:" ^ dash (String.concat ";" sats) ^ "|C:" ^ dash (String.concat ";" rows)

let st_view (s : station) : string =
  Printf.sprintf "st %d,%d,%d,%d,%d,%d,%d,%d,%d,%d" (int_of_n s.st_type) (int_of_n s.st_id) (int_of_n s.st_itrf)
    (int_of_n s.st_ign1) (int_of_z s.st_x) (int_of_n s.st_ign2) (int_of_z s.st_y) (int_of_n s.st_ign3)
    (int_of_z s.st_z) (int_of_n s.st_height)

let res_view f r = match r with Ok v -> f v | Err e -> "err " ^ err_name e | Panic -> "panic"

(* decode <4|7|1005|1006|auto> <hex> *)
let () = register "decode" (fun f ->
  match f with
  | [_; kind; hx] ->
    let b = bytes_of_hex hx in
    (match kind with
     | "4" -> res_view msm_view (decode_msm4 b)
     | "7" -> res_view msm_view (decode_msm7 b)
     | "1005" -> res_view st_view (decode1005 b)
     | "1006" -> res_view st_view (decode1006 b)
     | _ ->
       let h = new_handler (z_of_int 1683720000000000000) in
       (match get_message h b with
        | Ok (None, _) -> "nil"
        | Ok (Some m, _) ->
          let t = int_of_z m.mtype in
          if t < 0 then "nonrtcm"
          else if msm4b m.mtype then res_view msm_view (decode_msm4 m.raw)
          else if msm7b m.mtype then res_view msm_view (decode_msm7 m.raw)
          else if t = 1005 then res_view st_view (decode1005 m.raw)
          else if t = 1006 then res_view st_view (decode1006 m.raw)
          else (match m.memsg with Some e -> "err " ^ err_name e | None -> "other")
        | Err e -> "err " ^ err_name e
        | Panic -> "panic"))
  | _ -> failwith "decode: bad case")

(* abstract messages: key=value tokens *)
let kv (toks : string list) : (string, string) Hashtbl.t =
  let h = Hashtbl.create 16 in
  List.iter (fun t -> match String.index_opt t '=' with
    | Some i -> Hashtbl.replace h (String.sub t 0 i) (String.sub t (i+1) (String.length t - i - 1))
    | None -> ()) toks; h
let geti h k = int_of_string (Hashtbl.find h k)
let getn h k = n_of_int (geti h k)
let getb h k = geti h k = 1
let list_of s sep = if s = "-" || s = "" then [] else String.split_on_char sep s

let parse_amsm (toks : string list) : amsm * int =
  let h = kv toks in
  let rows = List.map (fun r -> if r = "e" then [] else List.init (String.length r) (fun i -> r.[i] = '1'))
      (list_of (Hashtbl.find h "rows") '.') in
  let sat = List.map (fun s -> match String.split_on_char '/' s with
      | [w; e; f; r] -> (((n_of_int (int_of_string w), n_of_int (int_of_string e)), n_of_int (int_of_string f)), z_of_int (int_of_string r))
      | _ -> failwith "bad sat") (list_of (Hashtbl.find h "sat") ';') in
  let sg = List.map (fun s -> match String.split_on_char '/' s with
      | [rd; prd; lock; half; cnr; rrd] ->
        (((((z_of_int (int_of_string rd), z_of_int (int_of_string prd)), n_of_int (int_of_string lock)), half = "1"),
          n_of_int (int_of_string cnr)), z_of_int (int_of_string rrd))
      | _ -> failwith "bad sig") (list_of (Hashtbl.find h "sig") ';') in
  ({ a_k7 = getb h "k7"; a_type = getn h "type"; a_station = getn h "st"; a_ts = getn h "ts"; a_multi = getb h "mm";
     a_iods = getn h "iods"; a_sess = getn h "sess"; a_clk = getn h "clk"; a_ext = getn h "ext";
     a_smooth = getb h "smooth"; a_smint = getn h "smint";
     a_sats = List.map (fun x -> n_of_int (int_of_string x)) (list_of (Hashtbl.find h "sats") '.');
     a_sigs = List.map (fun x -> n_of_int (int_of_string x)) (list_of (Hashtbl.find h "sigs") '.');
     a_rows = rows; a_satdata = sat; a_sigdata = sg }, geti h "pad")

(* msmspec k7=.. type=.. ... pad=N  ->  wf=<0|1> bytes=<payload bytes> frame=<hex> view=<expected view> *)
let () = register "msmspec" (fun f ->
  match f with
  | _ :: toks ->
    let (m, pad) = parse_amsm toks in
    let wf = wf_amsm m in
    let pb = int_of_nat (payload_bytes m) in
    if pb + pad > 1023 || pb < 1 then Printf.sprintf "wf=0 bytes=%d frame=- view=-" pb
    else
      Printf.sprintf "wf=%s bytes=%d frame=%s view=%s" (b01 wf) pb
        (hex_of_bytes (msm_frame m (nat_of_int pad))) (msm_view (view m))
  | _ -> failwith "msmspec: bad case")

(* stspec type=1005 id=.. itrf=.. i1=.. x=.. i2=.. y=.. i3=.. z=.. h=.. extra=<hex>
     -> wf=<0|1> frame=<hex> view=<expected view> *)
let () = register "stspec" (fun f ->
  match f with
  | _ :: toks ->
    let h = kv toks in
    let gz k = z_of_int (geti h k) in
    let s = { st_type = getn h "type"; st_id = getn h "id"; st_itrf = getn h "itrf"; st_ign1 = getn h "i1";
              st_x = gz "x"; st_ign2 = getn h "i2"; st_y = gz "y"; st_ign3 = getn h "i3"; st_z = gz "z";
              st_height = getn h "h" } in
    let extra = bytes_of_hex (Hashtbl.find h "extra") in
    Printf.sprintf "wf=%s frame=%s view=%s" (b01 (wf_station s)) (hex_of_bytes (station_frame s extra)) (st_view s)
  | _ -> failwith "stspec: bad case")

(* ---- sanitise (C19), queue (C18) ---- *)
let () = register "sanitise" (fun f ->
  match f with
  | [_; hx] -> hex_of_bytes (sanitise (bytes_of_hex hx))
  | _ -> failwith "sanitise: bad case")

(* queue <capacity> <ops>: model and, beside it, the specification "last min(N, added)" *)
let () = register "queue" (fun f ->
  match f with
  | [_; cap; ops] ->
    let n = int_of_string cap in
    let q = ref (new_queue (nat_of_int n)) in
    let added = ref [] in   (* newest first *)
    let next = ref 0 in
    let maxitems = ref 0 in
    let parts = ref [] in
    let add () =
      incr next; q := qadd !q (n_of_int !next); added := !next :: !added;
      let l = List.length (!q).q_items in if l > !maxitems then maxitems := l in
    let i = ref 0 in
    let len = String.length ops in
    while !i < len do
      (match ops.[!i] with
       | 'a' -> add ()
       | 'A' ->
         let j = ref (!i + 1) in
         while !j < len && ops.[!j] >= '0' && ops.[!j] <= '9' do incr j done;
         let k = int_of_string (String.sub ops (!i + 1) (!j - !i - 1)) in
         for _ = 1 to k do add () done;
         i := !j - 1
       | 's' ->
         let snap = List.map int_of_n (snapshot !q) in
         let str l = if l = [] then "-" else String.concat "." (List.map string_of_int l) in
         (* specification: the last min(capacity, added) additions, oldest first *)
         let rec take k l = if k = 0 then [] else match l with [] -> [] | x :: r -> x :: take (k - 1) r in
         let spec = List.rev (take n !added) in
         parts := ("s:" ^ str snap ^ (if snap = spec then "" else "!spec=" ^ str spec)) :: !parts
       | _ -> ());
      incr i
    done;
    String.concat " " (List.rev (Printf.sprintf "max=%d" !maxitems :: !parts))
  | _ -> failwith "queue: bad case")

(* ---- EOF retry (C13) ---- *)
let parse_script (s : string) : rstep list =
  if s = "-" then [] else
  (* "de:<hex>" (bytes and io.EOF returned by one Read call) is, for the model, the bytes followed by an EOF result:
     that is what the io.Reader contract says the caller must make of it. *)
  List.concat_map (fun st ->
    if String.length st > 2 && String.sub st 0 2 = "d:" then [RData (bytes_of_hex (String.sub st 2 (String.length st - 2)))]
    else if String.length st > 3 && String.sub st 0 3 = "de:" then [RData (bytes_of_hex (String.sub st 3 (String.length st - 3))); REof]
    else if st = "eof" then [REof] else if st = "timeout" then [RTimeout] else if st = "err" then [ROther]
    else if String.length st > 6 && String.sub st 0 6 = "sleep:" then [RSleep (n_of_int (int_of_string (String.sub st 6 (String.length st - 6))))]
    else failwith ("bad step " ^ st)) (String.split_on_char ';' s)

(* eofretry <script> <tolerance ms> <wait ms>  ->  err=<kind> msgs=<type,raw;..> closed=1 *)
let () = register "eofretry" (fun f ->
  match f with
  | [_; script; tol; wait] ->
    let (bytes, why) = run_reader (n_of_int (int_of_string tol)) (n_of_int (int_of_string wait)) (parse_script script) in
    let kind = match why with StopEOF -> "eof" | StopTimeout -> "timeout" | StopOther -> "other" | StopNone -> "nil" in
    let h = new_handler (z_of_int 1683720000000000000) in
    (match handle_stream h bytes with
     | Ok (ms, _) ->
       let l = List.map (fun m -> Printf.sprintf "%d,%s" (int_of_z m.mtype) (hex_of_bytes m.raw)) ms in
       Printf.sprintf "err=%s msgs=%s closed=1" kind (dash (String.concat ";" l))
     | Err e -> "err " ^ err_name e | Panic -> "panic")
  | _ -> failwith "eofretry: bad case")

let () =
  if Array.length Sys.argv < 2 then (prerr_endline "usage: model <property> < cases"; exit 2);
  let r = try Hashtbl.find runners Sys.argv.(1) with Not_found -> (prerr_endline "model: unknown property"; exit 2) in
  let out = Buffer.create (1 lsl 16) in
  (try
    while true do
      let line = input_line stdin in
      if String.length line > 0 then begin
        Buffer.add_string out (r (split_ws line)); Buffer.add_char out '\n';
        if Buffer.length out > (1 lsl 16) then (print_string (Buffer.contents out); Buffer.clear out)
      end
    done
  with End_of_file -> ());
  print_string (Buffer.contents out)
